// Package gen holds the seeded pseudo random source used by every workload
// generator. A batch is a pure function of (VERIF_SEED, tier, batch index).
package gen

// R is a splitmix64 generator. It is NOT safe for concurrent use; every
// goroutine of a workload derives its own with Fork.
type R struct{ s uint64 }

// New returns a generator seeded from the given words.
func New(words ...uint64) *R {
	r := &R{s: 0x9e3779b97f4a7c15}
	for _, w := range words {
		r.s ^= w + 0x9e3779b97f4a7c15 + (r.s << 6) + (r.s >> 2)
		r.U64()
	}
	return r
}

// Fork derives an independent generator.
func (r *R) Fork(tag uint64) *R { return New(r.U64(), tag) }

// U64 returns the next 64 random bits.
func (r *R) U64() uint64 {
	r.s += 0x9e3779b97f4a7c15
	z := r.s
	z = (z ^ (z >> 30)) * 0xbf58476d1ce4e5b9
	z = (z ^ (z >> 27)) * 0x94d049bb133111eb
	return z ^ (z >> 31)
}

// Intn returns a value in [0,n).
func (r *R) Intn(n int) int {
	if n <= 0 {
		return 0
	}
	return int(r.U64() % uint64(n))
}

// Range returns a value in [lo,hi].
func (r *R) Range(lo, hi int) int { return lo + r.Intn(hi-lo+1) }

// Bool returns true with probability 1/2.
func (r *R) Bool() bool { return r.U64()&1 == 1 }

// Chance returns true with probability num/den.
func (r *R) Chance(num, den int) bool { return r.Intn(den) < num }

// U32 returns 32 random bits.
func (r *R) U32() uint32 { return uint32(r.U64() >> 16) }

// Byte returns a random octet.
func (r *R) Byte() byte { return byte(r.U64() >> 24) }

// Bytes returns n random octets.
func (r *R) Bytes(n int) []byte {
	b := make([]byte, n)
	for i := 0; i < n; {
		v := r.U64()
		for k := 0; k < 8 && i < n; k++ {
			b[i] = byte(v)
			v >>= 8
			i++
		}
	}
	return b
}

// ASCII returns n octets in 0x00..0x7f.
func (r *R) ASCII(n int) []byte {
	b := r.Bytes(n)
	for i := range b {
		b[i] &= 0x7f
	}
	return b
}

// Printable returns n octets in 0x20..0x7e.
func (r *R) Printable(n int) []byte {
	b := r.Bytes(n)
	for i := range b {
		b[i] = 0x20 + b[i]%95
	}
	return b
}

const alnum = "abcdefghijklmnopqrstuvwxyzABCDEFGHIJKLMNOPQRSTUVWXYZ0123456789"

// Alnum returns n alphanumerics.
func (r *R) Alnum(n int) string {
	b := make([]byte, n)
	for i := range b {
		b[i] = alnum[r.Intn(len(alnum))]
	}
	return string(b)
}

// Fill returns n copies of c (used to make field swaps visible).
func Fill(c byte, n int) []byte {
	b := make([]byte, n)
	for i := range b {
		b[i] = c
	}
	return b
}

// Pick returns one of the given ints.
func (r *R) Pick(xs ...int) int { return xs[r.Intn(len(xs))] }

// PickS returns one of the given strings.
func (r *R) PickS(xs ...string) string { return xs[r.Intn(len(xs))] }

// Perm returns a random permutation of 0..n-1.
func (r *R) Perm(n int) []int {
	p := make([]int, n)
	for i := range p {
		p[i] = i
	}
	for i := n - 1; i > 0; i-- {
		j := r.Intn(i + 1)
		p[i], p[j] = p[j], p[i]
	}
	return p
}
