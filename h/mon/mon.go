// Package mon is the verdict plumbing shared by all checks: the per-batch
// collector the monitors report into, the worker result file, the parent
// that fans batches out to worker processes, evidence and replay writers and
// the known-findings matcher.
package mon

import (
	"encoding/json"
	"fmt"
	"os"
	"sort"
	"sync"
	"time"
)

// Violation is one refuting observation.
type Violation struct {
	Property  string                 `json:"property"`
	Signature string                 `json:"signature"`
	What      string                 `json:"what"`
	Batch     int                    `json:"batch"`
	Case      int                    `json:"case"`
	Detail    map[string]interface{} `json:"detail,omitempty"`
}

// B collects what one batch (one worker process) observed. All methods are
// safe for concurrent use: the monitor's own state must never be the race.
type B struct {
	Property string
	Tier     string
	Seed     int64
	Index    int
	Only     int // >=0: replay exactly this case of the batch

	mu            sync.Mutex
	evals         int64
	classes       map[string]int64
	counters      map[string]int64
	samples       []interface{}
	sampleKeys    map[string]bool
	violations    []Violation
	sigCount      map[string]int
	inconclusive  []string
	inconclusiveN int
	curCase       int
	start         time.Time
	cutShort      bool
	// Boost multiplies the quick-tier counts of checks whose cases are very cheap.
	Boost int
}

// NewB creates a collector.
func NewB(prop, tier string, seed int64, index int) *B {
	return &B{Property: prop, Tier: tier, Seed: seed, Index: index, Only: -1, start: time.Now(),
		classes: map[string]int64{}, counters: map[string]int64{}, sampleKeys: map[string]bool{}, sigCount: map[string]int{}}
}

// Thorough reports whether the thorough tier was requested.
func (b *B) Thorough() bool { return b.Tier == "thorough" }

// QuickScale multiplies the nominal quick-tier case counts (the nominal
// numbers were sized for sub-second runs; the quick budget is 20-90 s).
var QuickScale = 8

// ThoroughScale: the thorough tier runs this many times the quick tier's case
// count (budget: 3-20 minutes per property on 16 cores). The second argument of
// N documents the planned order of magnitude and is a lower bound.
var ThoroughScale = 12

// N picks the case count for the tier.
func (b *B) N(quick, thorough int) int {
	q := quick * QuickScale
	if b.Boost > 1 {
		q *= b.Boost
	}
	if b.Thorough() && os.Getenv("VERIF_QUICK_COUNTS") == "" {
		t := q * ThoroughScale
		if thorough > t {
			t = thorough
		}
		return t
	}
	return q
}

// NQ is the quick-tier count in both tiers: the inner bound of nested loops whose outer bound
// already grows with the tier (otherwise the thorough tier would be 144 times the quick one).
func (b *B) NQ(quick int) int {
	q := quick * QuickScale
	if b.Boost > 1 {
		q *= b.Boost
	}
	return q
}

// N1 is N without the quick-tier scaling (for loops whose cost is high per unit).
func (b *B) N1(quick, thorough int) int {
	if b.Thorough() {
		return thorough
	}
	return quick
}

// Want reports whether case i should run (always, unless replaying one case).
func (b *B) Want(i int) bool {
	if b.Only >= 0 && b.Only != i {
		return false
	}
	b.mu.Lock()
	defer b.mu.Unlock()
	// a batch that has already found a violation does not keep exploring for ever: a broken
	// tree can make every remaining case very slow (spinning or stuck servers)
	if len(b.violations) > 0 {
		limit := 90 * time.Second
		if b.Tier == "thorough" {
			limit = 15 * time.Minute
		}
		if time.Since(b.start) > limit {
			if !b.cutShort {
				b.cutShort = true
				b.counters["batches_cut_short_after_a_violation"]++
			}
			return false
		}
	}
	b.curCase = i
	return true
}

// Eval counts executed cases.
func (b *B) Eval(n int) {
	b.mu.Lock()
	b.evals += int64(n)
	b.mu.Unlock()
}

// Class records that a case of the named (non trivial) class was observed.
func (b *B) Class(format string, a ...interface{}) {
	k := format
	if len(a) > 0 {
		k = fmt.Sprintf(format, a...)
	}
	b.mu.Lock()
	b.classes[k]++
	b.mu.Unlock()
}

// Count adds to a named counter reported in the evidence.
func (b *B) Count(k string, n int) {
	b.mu.Lock()
	b.counters[k] += int64(n)
	b.mu.Unlock()
}

// Max keeps the maximum of a named gauge.
func (b *B) Max(k string, n int) {
	b.mu.Lock()
	if int64(n) > b.counters[k] {
		b.counters[k] = int64(n)
	}
	b.mu.Unlock()
}

// Sample keeps one written-out case per key (a few per batch).
func (b *B) Sample(key string, v interface{}) {
	b.mu.Lock()
	if !b.sampleKeys[key] && len(b.samples) < 6 {
		b.sampleKeys[key] = true
		b.samples = append(b.samples, map[string]interface{}{"kind": key, "case": v})
	}
	b.mu.Unlock()
}

// Violate records a violation. At most 3 witnesses per signature are kept.
func (b *B) Violate(caseIdx int, sig, what string, detail map[string]interface{}) {
	b.mu.Lock()
	defer b.mu.Unlock()
	b.sigCount[sig]++
	if b.sigCount[sig] > 3 {
		return
	}
	if caseIdx < 0 {
		caseIdx = b.curCase
	}
	b.violations = append(b.violations, Violation{Property: b.Property, Signature: sig, What: what, Batch: b.Index, Case: caseIdx, Detail: detail})
}

// Inconclusive records that part of the batch could not be judged.
func (b *B) Inconclusive(format string, a ...interface{}) {
	b.mu.Lock()
	b.inconclusiveN++
	if len(b.inconclusive) < 20 {
		b.inconclusive = append(b.inconclusive, fmt.Sprintf(format, a...))
	}
	b.mu.Unlock()
}

// Result is what a worker hands back to the parent.
type Result struct {
	Batch         int              `json:"batch"`
	Evals         int64            `json:"evals"`
	Classes       map[string]int64 `json:"classes"`
	Counters      map[string]int64 `json:"counters"`
	Samples       []interface{}    `json:"samples"`
	Violations    []Violation      `json:"violations"`
	SigCount      map[string]int   `json:"sig_count"`
	Inconclusive  []string         `json:"inconclusive"`
	InconclusiveN int              `json:"inconclusive_n"`
	Done          bool             `json:"done"`
}

// Result snapshots the collector.
func (b *B) Result() Result {
	b.mu.Lock()
	defer b.mu.Unlock()
	return Result{Batch: b.Index, Evals: b.evals, Classes: b.classes, Counters: b.counters, Samples: b.samples,
		Violations: b.violations, SigCount: b.sigCount, Inconclusive: b.inconclusive, InconclusiveN: b.inconclusiveN, Done: true}
}

// JSON renders any value for a replay/sample (never fails).
func JSON(v interface{}) string {
	s, err := json.Marshal(v)
	if err != nil {
		return fmt.Sprintf("%#v", v)
	}
	return string(s)
}

// SortedKeys returns the keys of a counter map.
func SortedKeys(m map[string]int64) []string {
	ks := make([]string, 0, len(m))
	for k := range m {
		ks = append(ks, k)
	}
	sort.Strings(ks)
	return ks
}
