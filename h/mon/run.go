package mon

import (
	"bytes"
	"encoding/json"
	"flag"
	"fmt"
	"os"
	"os/exec"
	"path/filepath"
	"regexp"
	"runtime"
	"runtime/pprof"
	"sort"
	"strconv"
	"strings"
	"sync"
	"syscall"
	"time"
)

// Check describes one property's machinery.
type Check struct {
	ID          string
	Race        bool // workers run the -race build (race detector + checkptr)
	RaceAlso    bool // thorough tier: additionally run batch 0 under the -race build
	Batches     func(tier string) int
	Run         func(b *B)
	Rule        string
	Technique   string
	Assumptions []string
	// MinClasses is the coverage floor (distinct non trivial classes) below
	// which a run is inconclusive rather than "held".
	MinClasses func(tier string) int
	// CrashIsViolation: a worker that dies is itself a witness (C04, C14).
	CrashIsViolation bool
	Parallel         int
	// Boost multiplies the case counts of a check whose cases are very cheap.
	Boost         int
	WorkerTimeout func(tier string) time.Duration
	// Post lets a check derive verdicts from aggregated counters.
	Post func(a *Agg)
}

// Agg is the parent-side aggregate of all batches.
type Agg struct {
	Check        *Check
	Tier         string
	Seed         int64
	Evals        int64
	Classes      map[string]int64
	Counters     map[string]int64
	Samples      []interface{}
	Violations   []Violation
	SigCount     map[string]int
	Inconclusive []string
	// CaseInconclusive: single cases a check abandoned (wall-clock watchdog, ...); see finish
	CaseInconclusive  []string
	CaseInconclusiveN int
}

var registry = map[string]*Check{}

// Register adds a check.
func Register(c *Check) { registry[c.ID] = c }

// Root is the /verif directory.
func Root() string {
	if r := os.Getenv("VERIF_ROOT"); r != "" {
		return r
	}
	return "/verif"
}

// Main is the entry point of the vc binary.
func Main() {
	if len(os.Args) < 2 {
		fmt.Fprintln(os.Stderr, "usage: vc <ID> [--tier quick|thorough] [--seed N] [--replay file]")
		os.Exit(2)
	}
	id := os.Args[1]
	if id == "list" {
		ids := []string{}
		for k := range registry {
			ids = append(ids, k)
		}
		sort.Strings(ids)
		fmt.Println(strings.Join(ids, " "))
		return
	}
	c := registry[id]
	if c == nil {
		fmt.Fprintf(os.Stderr, "unknown check %q\n", id)
		os.Exit(2)
	}
	fs := flag.NewFlagSet("vc", flag.ExitOnError)
	tier := fs.String("tier", envOr("VERIF_TIER", "quick"), "quick|thorough")
	seed := fs.Int64("seed", envInt("VERIF_SEED", 1), "seed")
	worker := fs.Bool("worker", false, "run one batch in this process")
	batch := fs.Int("batch", 0, "batch index (worker)")
	only := fs.Int("only", -1, "only this case of the batch (worker)")
	out := fs.String("out", "", "result file (worker)")
	replay := fs.String("replay", "", "replay file")
	fs.Parse(os.Args[2:])
	if *tier != "quick" && *tier != "thorough" {
		*tier = "quick"
	}
	if *worker {
		runWorker(c, *tier, *seed, *batch, *only, *out)
		return
	}
	if *replay != "" {
		os.Exit(runReplay(c, *replay))
	}
	os.Exit(runParent(c, *tier, *seed))
}

func envOr(k, d string) string {
	if v := os.Getenv(k); v != "" {
		return v
	}
	return d
}

func envInt(k string, d int64) int64 {
	if v := os.Getenv(k); v != "" {
		if n, err := strconv.ParseInt(strings.TrimSpace(v), 10, 64); err == nil {
			return n
		}
	}
	return d
}

func runWorker(c *Check, tier string, seed int64, batch, only int, out string) {
	b := NewB(c.ID, tier, seed, batch)
	b.Only = only
	b.Boost = c.Boost
	if hp := os.Getenv("VERIF_HEAPPROF"); hp != "" {
		// development aid: periodic heap profiles of a worker
		go func() {
			for i := 0; ; i++ {
				time.Sleep(30 * time.Second)
				if f, err := os.Create(fmt.Sprintf("%s.%d", hp, i%2)); err == nil {
					pprof.Lookup("heap").WriteTo(f, 0)
					f.Close()
				}
			}
		}()
	}
	c.Run(b)
	res := b.Result()
	data, _ := json.Marshal(res)
	if out == "" {
		fmt.Println(string(data))
		return
	}
	tmp := out + ".tmp"
	if err := os.WriteFile(tmp, data, 0644); err != nil {
		fmt.Fprintln(os.Stderr, "worker: cannot write result:", err)
		os.Exit(3)
	}
	os.Rename(tmp, out)
}

type workerOutcome struct {
	batch    int
	res      *Result
	died     bool
	timedOut bool
	log      string
	logPath  string
	race     bool
}

func spawn(c *Check, tier string, seed int64, batch, only int, race bool, dir string) workerOutcome {
	bin, _ := os.Executable()
	tag := fmt.Sprintf("b%d", batch)
	if race {
		if rb := os.Getenv("VC_RACE_BIN"); rb != "" {
			bin = rb
		}
		tag += "r"
	}
	outFile := filepath.Join(dir, tag+".json")
	logFile := filepath.Join(dir, tag+".log")
	os.Remove(outFile)
	args := []string{c.ID, "--worker", "--tier", tier, "--seed", fmt.Sprint(seed), "--batch", fmt.Sprint(batch), "--out", outFile}
	if only >= 0 {
		args = append(args, "--only", fmt.Sprint(only))
	}
	cmd := exec.Command(bin, args...)
	lf, _ := os.Create(logFile)
	cmd.Stdout = lf
	cmd.Stderr = lf
	cmd.Env = append(os.Environ(), "GOTRACEBACK=all")
	if race {
		cmd.Env = append(cmd.Env, "GORACE=halt_on_error=0 history_size=3 log_path="+filepath.Join(dir, tag+".race"))
		if !c.Race {
			// the additional -race batch of the thorough tier runs the quick tier's case counts: under
			// the race detector a batch is about ten times slower
			cmd.Env = append(cmd.Env, "VERIF_QUICK_COUNTS=1")
		}
	}
	to := 15 * time.Minute
	if tier == "thorough" {
		to = 90 * time.Minute
	}
	if c.WorkerTimeout != nil {
		to = c.WorkerTimeout(tier)
	}
	o := workerOutcome{batch: batch, logPath: logFile, race: race}
	if err := cmd.Start(); err != nil {
		o.died = true
		o.log = err.Error()
		return o
	}
	done := make(chan error, 1)
	go func() { done <- cmd.Wait() }()
	var err error
	select {
	case err = <-done:
	case <-time.After(to):
		o.timedOut = true
		cmd.Process.Signal(syscall.SIGQUIT)
		select {
		case err = <-done:
		case <-time.After(20 * time.Second):
			cmd.Process.Kill()
			err = <-done
		}
	}
	lf.Close()
	if data, rerr := os.ReadFile(outFile); rerr == nil {
		var r Result
		if json.Unmarshal(data, &r) == nil && r.Done {
			o.res = &r
		}
	}
	if o.res == nil || err != nil {
		if o.res == nil {
			o.died = true
		}
		o.log = tail(logFile, 12000)
	}
	return o
}

func tail(path string, n int) string {
	data, err := os.ReadFile(path)
	if err != nil {
		return ""
	}
	// keep the head of a panic (the first goroutine is the interesting one)
	if i := bytes.Index(data, []byte("panic: ")); i >= 0 {
		data = data[i:]
		if len(data) > n {
			data = data[:n]
		}
		return string(data)
	}
	if i := bytes.Index(data, []byte("fatal error: ")); i >= 0 {
		data = data[i:]
		if len(data) > n {
			data = data[:n]
		}
		return string(data)
	}
	if len(data) > 2*n {
		return string(data[:n]) + "\n...[middle of the log omitted]...\n" + string(data[len(data)-n:])
	}
	return string(data)
}

// FirstTacquitoFrame extracts the first tacquito function of a stack dump.
func FirstTacquitoFrame(dump string) string {
	for _, line := range strings.Split(dump, "\n") {
		if !strings.HasPrefix(line, modPrefix) {
			continue
		}
		// the argument list starts at the first '(' that does not open a receiver "(*T)"
		end := len(line)
		for i := 0; i < len(line); i++ {
			if line[i] == '(' && !(i+1 < len(line) && line[i+1] == '*') {
				end = i
				break
			}
		}
		return strings.TrimPrefix(line[:end], modPrefix)
	}
	return "no-tacquito-frame"
}

// firstGoroutine returns the first goroutine block of a Go crash dump (the goroutine that
// panicked or hit the fatal error), or the whole text if there is none.
func firstGoroutine(dump string) string {
	i := strings.Index(dump, "\ngoroutine ")
	if i < 0 {
		return dump
	}
	rest := dump[i+1:]
	if j := strings.Index(rest, "\n\n"); j >= 0 {
		return rest[:j]
	}
	return rest
}

func workDir(id string) string {
	d := filepath.Join(Root(), ".build", "work", id, fmt.Sprint(os.Getpid()))
	os.MkdirAll(d, 0755)
	return d
}

func runParent(c *Check, tier string, seed int64) int {
	start := time.Now()
	dir := workDir(c.ID)
	defer os.RemoveAll(dir)
	n := c.Batches(tier)
	par := c.Parallel
	if par <= 0 {
		par = runtime.NumCPU()
	}
	type job struct {
		batch int
		race  bool
	}
	jobs := []job{}
	for i := 0; i < n; i++ {
		jobs = append(jobs, job{i, c.Race})
	}
	if c.RaceAlso && !c.Race && tier == "thorough" {
		jobs = append(jobs, job{0, true})
	}
	outcomes := make([]workerOutcome, len(jobs))
	sem := make(chan struct{}, par)
	var wg sync.WaitGroup
	for i, j := range jobs {
		wg.Add(1)
		sem <- struct{}{}
		go func(i int, j job) {
			defer wg.Done()
			defer func() { <-sem }()
			outcomes[i] = spawn(c, tier, seed, j.batch, -1, j.race, dir)
		}(i, j)
	}
	wg.Wait()
	a := aggregate(c, tier, seed, outcomes, dir)
	if c.Post != nil {
		c.Post(a)
	}
	return finish(a, time.Since(start))
}

func aggregate(c *Check, tier string, seed int64, outcomes []workerOutcome, dir string) *Agg {
	a := &Agg{Check: c, Tier: tier, Seed: seed, Classes: map[string]int64{}, Counters: map[string]int64{}, SigCount: map[string]int{}}
	for _, o := range outcomes {
		if o.res != nil {
			r := o.res
			a.Evals += r.Evals
			for k, v := range r.Classes {
				a.Classes[k] += v
			}
			for k, v := range r.Counters {
				if strings.HasPrefix(k, "max:") {
					if v > a.Counters[k] {
						a.Counters[k] = v
					}
				} else {
					a.Counters[k] += v
				}
			}
			if len(a.Samples) < 8 {
				for _, s := range r.Samples {
					if len(a.Samples) < 8 {
						a.Samples = append(a.Samples, s)
					}
				}
			}
			a.Violations = append(a.Violations, r.Violations...)
			for k, v := range r.SigCount {
				a.SigCount[k] += v
			}
			a.CaseInconclusive = append(a.CaseInconclusive, r.Inconclusive...)
			n := r.InconclusiveN
			if n < len(r.Inconclusive) {
				n = len(r.Inconclusive)
			}
			a.CaseInconclusiveN += n
		}
		if o.timedOut {
			a.Inconclusive = append(a.Inconclusive, fmt.Sprintf("batch %d: watchdog fired (goroutine dump in replay dir)", o.batch))
			saveText(c.ID, fmt.Sprintf("watchdog-b%d.txt", o.batch), o.log)
			continue
		}
		if o.died {
			kind := "died"
			if strings.Contains(o.log, "panic: ") {
				kind = "panic"
			} else if strings.Contains(o.log, "fatal error: ") {
				kind = "fatal"
			}
			// the goroutine that panicked / hit the fatal error is the first one in the dump
			culprit := firstGoroutine(o.log)
			frame := FirstTacquitoFrame(culprit)
			harnessOnly := kind != "died" && frame == "no-tacquito-frame" && strings.Contains(culprit, "verif/h/")
			if harnessOnly {
				a.Inconclusive = append(a.Inconclusive, fmt.Sprintf("batch %d: the harness itself failed (%s): %s", o.batch, kind, firstLine(o.log)))
				saveText(c.ID, fmt.Sprintf("died-b%d.txt", o.batch), o.log)
			} else if c.CrashIsViolation || (kind != "died" && frame != "no-tacquito-frame") {
				sig := fmt.Sprintf("%s/process-%s/%s", c.ID, kind, frame)
				a.Violations = append(a.Violations, Violation{Property: c.ID, Signature: sig,
					What:  fmt.Sprintf("worker process for batch %d terminated (%s) in %s", o.batch, kind, frame),
					Batch: o.batch, Case: -1, Detail: map[string]interface{}{"stderr": o.log}})
				a.SigCount[sig]++
			} else {
				a.Inconclusive = append(a.Inconclusive, fmt.Sprintf("batch %d: worker died without a result: %s", o.batch, firstLine(o.log)))
				saveText(c.ID, fmt.Sprintf("died-b%d.txt", o.batch), o.log)
			}
		}
		if o.race {
			collectRaces(a, o, dir)
		}
	}
	return a
}

func firstLine(s string) string {
	s = strings.TrimSpace(s)
	if i := strings.IndexByte(s, '\n'); i >= 0 {
		s = s[:i]
	}
	if len(s) > 300 {
		s = s[:300]
	}
	return s
}

func saveText(id, name, text string) string {
	d := filepath.Join(Root(), "replays", id)
	os.MkdirAll(d, 0755)
	p := filepath.Join(d, name)
	os.WriteFile(p, []byte(text), 0644)
	return p
}

var sigSan = regexp.MustCompile(`[^A-Za-z0-9._-]+`)

// Finding is one entry of KNOWN_FINDINGS.json.
type Finding struct {
	Status    string `json:"status"` // known | fixed
	Property  string `json:"property"`
	Signature string `json:"signature"`
	What      string `json:"what"`
	Commit    string `json:"commit,omitempty"`
	Witness   string `json:"witness,omitempty"`
}

func loadFindings() []Finding {
	var f struct {
		Findings []Finding `json:"findings"`
	}
	data, err := os.ReadFile(filepath.Join(Root(), "KNOWN_FINDINGS.json"))
	if err != nil {
		return nil
	}
	if err := json.Unmarshal(data, &f); err != nil {
		fmt.Fprintln(os.Stderr, "KNOWN_FINDINGS.json unreadable:", err)
		return nil
	}
	return f.Findings
}

func finish(a *Agg, wall time.Duration) int {
	c := a.Check
	known := map[string]Finding{}
	for _, f := range loadFindings() {
		if f.Status == "known" && f.Property == c.ID {
			known[f.Signature] = f
		}
	}
	// group violations by signature
	bySig := map[string][]Violation{}
	order := []string{}
	for _, v := range a.Violations {
		if _, ok := bySig[v.Signature]; !ok {
			order = append(order, v.Signature)
		}
		bySig[v.Signature] = append(bySig[v.Signature], v)
	}
	sort.Strings(order)
	newViol := 0
	knownSeen := 0
	lines := []string{}
	for _, sig := range order {
		vs := bySig[sig]
		if f, ok := known[sig]; ok {
			knownSeen++
			lines = append(lines, fmt.Sprintf("KNOWN-FINDING: property=%s %s [%s] (%d occurrences this run)", c.ID, f.What, sig, a.SigCount[sig]))
			continue
		}
		newViol++
		rp := filepath.Join(Root(), "replays", c.ID, sigSan.ReplaceAllString(sig, "_")+".json")
		os.MkdirAll(filepath.Dir(rp), 0755)
		doc := map[string]interface{}{"property": c.ID, "signature": sig, "tier": a.Tier, "seed": a.Seed,
			"occurrences": a.SigCount[sig], "witnesses": vs, "batch": vs[0].Batch, "case": vs[0].Case,
			"replay_cmd": fmt.Sprintf("bin/vcheck %s --replay %s", c.ID, rp)}
		data, _ := json.MarshalIndent(doc, "", " ")
		os.WriteFile(rp, data, 0644)
		fmt.Printf("  what: %s\n", vs[0].What)
		lines = append(lines, fmt.Sprintf("VIOLATION property=%s replay=%s", c.ID, rp))
	}
	// Single abandoned cases: a wall-clock watchdog on a loaded machine can hit one case in
	// millions. Up to 3 of them, and at most 1 in 10 000 evaluated cases, are reported as "not
	// judged" (the run says what it explored); more than that means the workload itself did not
	// run properly and the whole run is inconclusive.
	notJudged := []string{}
	if a.CaseInconclusiveN > 0 {
		if a.CaseInconclusiveN <= 3 && int64(a.CaseInconclusiveN)*10000 <= a.Evals {
			notJudged = a.CaseInconclusive
		} else {
			a.Inconclusive = append(a.Inconclusive, a.CaseInconclusive...)
			if a.CaseInconclusiveN > len(a.CaseInconclusive) {
				a.Inconclusive = append(a.Inconclusive, fmt.Sprintf("(%d cases abandoned in all)", a.CaseInconclusiveN))
			}
		}
	}
	distinct := len(a.Classes)
	floor := 2
	if c.MinClasses != nil {
		floor = c.MinClasses(a.Tier)
	}
	if distinct < floor {
		a.Inconclusive = append(a.Inconclusive, fmt.Sprintf("coverage floor missed: %d distinct classes < %d", distinct, floor))
	}
	if a.Evals == 0 {
		a.Inconclusive = append(a.Inconclusive, "no case was executed")
	}
	// evidence
	cov := map[string]interface{}{
		"evaluations":         a.Evals,
		"distinct_nontrivial": distinct,
		"rule":                c.Rule,
		"samples":             a.Samples,
		"exhaustive":          false,
		"class_counts":        topClasses(a.Classes, 400),
		"observed":            a.Counters,
		"inconclusive":        a.Inconclusive,
		"cases_not_judged":    notJudged,
		"violation_signatures": func() map[string]int {
			m := map[string]int{}
			for _, s := range order {
				m[s] = a.SigCount[s]
			}
			return m
		}(),
		"known_findings_reproduced": knownSeen,
	}
	if len(a.Samples) == 0 {
		cov["samples"] = []interface{}{"(no sample recorded)"}
	}
	ev := map[string]interface{}{
		"property_id": c.ID,
		"tier":        a.Tier,
		"seed":        a.Seed,
		"level":       "exploration",
		"coverage":    cov,
		"assumptions": c.Assumptions,
		"wall_s":      wall.Seconds(),
		"violations":  newViol,
	}
	if c.Assumptions == nil {
		ev["assumptions"] = []string{}
	}
	os.MkdirAll(filepath.Join(Root(), "evidence"), 0755)
	data, _ := json.MarshalIndent(ev, "", " ")
	os.WriteFile(filepath.Join(Root(), "evidence", c.ID+".json"), data, 0644)

	fmt.Printf("%s tier=%s seed=%d: %d cases, %d distinct classes, %d violation signatures (%d known), %.1fs\n",
		c.ID, a.Tier, a.Seed, a.Evals, distinct, len(order), knownSeen, wall.Seconds())
	for _, k := range SortedKeys(a.Counters) {
		fmt.Printf("  observed %s=%d\n", k, a.Counters[k])
	}
	for _, l := range lines {
		fmt.Println(l)
	}
	for _, nj := range notJudged {
		fmt.Printf("NOTE property=%s one case not judged: %s\n", c.ID, nj)
	}
	if newViol > 0 {
		return 1
	}
	if len(a.Inconclusive) > 0 {
		for i, r := range a.Inconclusive {
			if i < 10 {
				fmt.Printf("INCONCLUSIVE property=%s reason=%s\n", c.ID, r)
			}
		}
		return 2
	}
	return 0
}

func topClasses(m map[string]int64, n int) map[string]int64 {
	if len(m) <= n {
		return m
	}
	ks := SortedKeys(m)
	out := map[string]int64{}
	for _, k := range ks[:n] {
		out[k] = m[k]
	}
	out["(truncated)"] = int64(len(m) - n)
	return out
}

func runReplay(c *Check, path string) int {
	data, err := os.ReadFile(path)
	if err != nil {
		fmt.Fprintln(os.Stderr, err)
		return 2
	}
	var doc struct {
		Tier  string `json:"tier"`
		Seed  int64  `json:"seed"`
		Batch int    `json:"batch"`
		Case  int    `json:"case"`
	}
	if err := json.Unmarshal(data, &doc); err != nil {
		fmt.Fprintln(os.Stderr, err)
		return 2
	}
	dir := workDir(c.ID)
	defer os.RemoveAll(dir)
	o := spawn(c, doc.Tier, doc.Seed, doc.Batch, doc.Case, c.Race, dir)
	a := aggregate(c, doc.Tier, doc.Seed, []workerOutcome{o}, dir)
	if c.Post != nil {
		c.Post(a)
	}
	for _, v := range a.Violations {
		fmt.Printf("REPLAYED %s: %s\n  %s\n", v.Signature, v.What, JSON(v.Detail))
	}
	if len(a.Violations) > 0 {
		fmt.Printf("VIOLATION property=%s replay=%s\n", c.ID, path)
		return 1
	}
	fmt.Println("replay: no violation reproduced")
	return 0
}
