package mon

import (
	"fmt"
	"os"
	"path/filepath"
	"sort"
	"strings"
)

// RaceReport is one parsed "WARNING: DATA RACE" block.
type RaceReport struct {
	Frames [2]string // first tacquito frame of each access ("" when none)
	Tops   [2]string // outermost reported frame of each access
	Text   string
}

const modPrefix = "github.com/facebookincubator/tacquito"

// ParseRaceLog splits a race detector log into reports.
func ParseRaceLog(text string) []RaceReport {
	var out []RaceReport
	for _, blk := range strings.Split(text, "==================") {
		if !strings.Contains(blk, "WARNING: DATA RACE") {
			continue
		}
		secs := strings.Split(strings.TrimSpace(blk), "\n\n")
		var rr RaceReport
		rr.Text = strings.TrimSpace(blk)
		idx := 0
		for _, s := range secs {
			head := strings.TrimSpace(s)
			head = strings.TrimPrefix(head, "WARNING: DATA RACE\n")
			lower := strings.ToLower(head)
			if !(strings.HasPrefix(lower, "read at") || strings.HasPrefix(lower, "write at") ||
				strings.HasPrefix(lower, "previous read at") || strings.HasPrefix(lower, "previous write at") ||
				strings.HasPrefix(lower, "atomic") || strings.HasPrefix(lower, "previous atomic")) {
				continue
			}
			if idx > 1 {
				break
			}
			lines := strings.Split(head, "\n")
			first := ""
			top := ""
			// the owner of an access is the first frame (from the top) that belongs to
			// tacquito or to the harness: standard-library frames above it (reflect,
			// fmt, maps, ...) only carry out the access on the owner's behalf
			for li, l := range lines[1:] {
				if !strings.HasPrefix(l, "  ") || strings.HasPrefix(l, "      ") {
					continue
				}
				fn := strings.TrimSpace(l)
				if i := strings.LastIndex(fn, "("); i > 0 {
					fn = fn[:i]
				}
				if strings.HasPrefix(fn, modPrefix) {
					first = strings.TrimPrefix(fn, modPrefix)
					break
				}
				// a closure of tacquito inlined into its caller is NAMED after the caller's package
				// (verif/h/checks.f.func8.SetHeaderRandomSessionID.3) but its code lives in a tacquito
				// source file: the file decides
				if li+2 < len(lines) {
					file := strings.TrimSpace(lines[li+2])
					if rel, ok := underRepo(file); ok {
						parts := strings.Split(fn, ".")
						name := parts[len(parts)-1]
						if len(parts) >= 2 && len(name) <= 2 {
							name = parts[len(parts)-2] + "." + name
						}
						first = "(" + rel + ")." + name
						break
					}
				}
				if strings.HasPrefix(fn, "verif/h/") {
					top = fn
					break
				}
			}
			rr.Frames[idx] = first
			rr.Tops[idx] = top
			idx++
		}
		out = append(out, rr)
	}
	return out
}

// underRepo reports whether a "file:line +0x.." line of a stack names a file of the tacquito tree
// under test and returns its path relative to that tree (without the line number).
func underRepo(fileLine string) (string, bool) {
	root := os.Getenv("VERIF_REPO")
	if root == "" {
		root = "/repo"
	}
	root = strings.TrimRight(root, "/") + "/"
	if !strings.HasPrefix(fileLine, root) {
		return "", false
	}
	rel := strings.TrimPrefix(fileLine, root)
	if i := strings.Index(rel, ":"); i > 0 {
		rel = rel[:i]
	}
	return rel, true
}

// Signature builds the de-duplication key of a report.
func (r RaceReport) Signature(prop string) (string, bool) {
	a, b := r.Frames[0], r.Frames[1]
	if a == "" && b == "" {
		return "", false
	}
	if a == "" {
		a = "harness:" + r.Tops[0]
	}
	if b == "" {
		b = "harness:" + r.Tops[1]
	}
	p := []string{a, b}
	sort.Strings(p)
	return fmt.Sprintf("%s/race/%s|%s", prop, p[0], p[1]), true
}

func collectRaces(a *Agg, o workerOutcome, dir string) {
	tag := fmt.Sprintf("b%dr.race", o.batch)
	files, _ := filepath.Glob(filepath.Join(dir, tag+".*"))
	for _, f := range files {
		data, err := os.ReadFile(f)
		if err != nil {
			continue
		}
		reports := ParseRaceLog(string(data))
		a.Counters["race_reports"] += int64(len(reports))
		for _, r := range reports {
			sig, ok := r.Signature(a.Check.ID)
			if !ok {
				a.Inconclusive = append(a.Inconclusive, "race report without any tacquito frame (harness race): "+firstLine(r.Text))
				saveText(a.Check.ID, "harness-race.txt", r.Text)
				continue
			}
			a.SigCount[sig]++
			if a.SigCount[sig] <= 2 {
				a.Violations = append(a.Violations, Violation{Property: a.Check.ID, Signature: sig,
					What:  "data race reported by the Go race detector: " + strings.TrimPrefix(sig, a.Check.ID+"/race/"),
					Batch: o.batch, Case: -1, Detail: map[string]interface{}{"report": r.Text}})
			}
		}
	}
}
