// Package rfc8907 is an independent statement of the RFC 8907 wire layouts,
// written from the RFC text. It imports nothing from tacquito: the packet
// diagrams are encoded as data and interpreted by one generic encoder and one
// generic decoder, and the section 4.5 pad is computed with crypto/md5.
package rfc8907

import (
	"crypto/md5"
	"encoding/binary"
	"fmt"
)

// Kind of a layout element.
type Kind int

const (
	U8      Kind = iota // one octet integer
	Len8                // one octet length of the named text field
	Len16               // two octet big endian length of the named text field
	ArgCnt              // one octet argument count
	ArgLens             // arg_cnt octets, one length per argument
	Text                // the bytes of the named text field
	Args                // the bytes of all arguments, in order
)

// Elem is one element of a packet diagram.
type Elem struct {
	Name string
	Kind Kind
}

// Layout names.
const (
	AuthenStart    = "authen_start"
	AuthenReply    = "authen_reply"
	AuthenContinue = "authen_continue"
	AuthorRequest  = "author_request"
	AuthorReply    = "author_reply"
	AcctRequest    = "acct_request"
	AcctReply      = "acct_reply"
)

// Layouts are the seven body diagrams of RFC 8907 sections 5.1, 5.2, 5.3,
// 6.1, 6.2, 7.1 and 7.2, in wire order.
var Layouts = map[string][]Elem{
	AuthenStart: {
		{"action", U8}, {"priv_lvl", U8}, {"authen_type", U8}, {"authen_service", U8},
		{"user", Len8}, {"port", Len8}, {"rem_addr", Len8}, {"data", Len8},
		{"user", Text}, {"port", Text}, {"rem_addr", Text}, {"data", Text},
	},
	AuthenReply: {
		{"status", U8}, {"flags", U8}, {"server_msg", Len16}, {"data", Len16},
		{"server_msg", Text}, {"data", Text},
	},
	AuthenContinue: {
		{"user_msg", Len16}, {"data", Len16}, {"flags", U8},
		{"user_msg", Text}, {"data", Text},
	},
	AuthorRequest: {
		{"authen_method", U8}, {"priv_lvl", U8}, {"authen_type", U8}, {"authen_service", U8},
		{"user", Len8}, {"port", Len8}, {"rem_addr", Len8}, {"arg_cnt", ArgCnt},
		{"arg_lens", ArgLens},
		{"user", Text}, {"port", Text}, {"rem_addr", Text}, {"args", Args},
	},
	AuthorReply: {
		{"status", U8}, {"arg_cnt", ArgCnt}, {"server_msg", Len16}, {"data", Len16},
		{"arg_lens", ArgLens},
		{"server_msg", Text}, {"data", Text}, {"args", Args},
	},
	AcctRequest: {
		{"flags", U8}, {"authen_method", U8}, {"priv_lvl", U8}, {"authen_type", U8}, {"authen_service", U8},
		{"user", Len8}, {"port", Len8}, {"rem_addr", Len8}, {"arg_cnt", ArgCnt},
		{"arg_lens", ArgLens},
		{"user", Text}, {"port", Text}, {"rem_addr", Text}, {"args", Args},
	},
	AcctReply: {
		{"server_msg", Len16}, {"data", Len16}, {"status", U8},
		{"server_msg", Text}, {"data", Text},
	},
}

// LayoutsOfType lists, per header packet type (1 authentication,
// 2 authorization, 3 accounting), the body layouts that can travel under it.
var LayoutsOfType = map[int][]string{
	1: {AuthenStart, AuthenContinue, AuthenReply},
	2: {AuthorRequest, AuthorReply},
	3: {AcctRequest, AcctReply},
}

// Value is a generic body value.
type Value struct {
	Layout string
	Ints   map[string]int
	Texts  map[string][]byte
	Args   [][]byte
}

// NewValue makes an empty value of a layout.
func NewValue(layout string) *Value {
	return &Value{Layout: layout, Ints: map[string]int{}, Texts: map[string][]byte{}}
}

// HasArgs reports whether the layout carries arguments.
func HasArgs(layout string) bool {
	for _, e := range Layouts[layout] {
		if e.Kind == Args {
			return true
		}
	}
	return false
}

// Fits reports whether every field fits its wire width.
func (v *Value) Fits() error {
	for _, e := range Layouts[v.Layout] {
		switch e.Kind {
		case U8:
			if x := v.Ints[e.Name]; x < 0 || x > 255 {
				return fmt.Errorf("%s=%d does not fit one octet", e.Name, x)
			}
		case Len8:
			if n := len(v.Texts[e.Name]); n > 255 {
				return fmt.Errorf("%s is %d bytes, wire width 255", e.Name, n)
			}
		case Len16:
			if n := len(v.Texts[e.Name]); n > 65535 {
				return fmt.Errorf("%s is %d bytes, wire width 65535", e.Name, n)
			}
		case ArgCnt:
			if len(v.Args) > 255 {
				return fmt.Errorf("%d arguments, wire width 255", len(v.Args))
			}
		case ArgLens:
			for i, a := range v.Args {
				if len(a) > 255 {
					return fmt.Errorf("argument %d is %d bytes, wire width 255", i, len(a))
				}
			}
		}
	}
	return nil
}

// Encode lays the value out per the RFC diagram.
func (v *Value) Encode() ([]byte, error) {
	if err := v.Fits(); err != nil {
		return nil, err
	}
	var b []byte
	for _, e := range Layouts[v.Layout] {
		switch e.Kind {
		case U8:
			b = append(b, byte(v.Ints[e.Name]))
		case Len8:
			b = append(b, byte(len(v.Texts[e.Name])))
		case Len16:
			n := len(v.Texts[e.Name])
			b = append(b, byte(n>>8), byte(n&0xff))
		case ArgCnt:
			b = append(b, byte(len(v.Args)))
		case ArgLens:
			for _, a := range v.Args {
				b = append(b, byte(len(a)))
			}
		case Text:
			b = append(b, v.Texts[e.Name]...)
		case Args:
			for _, a := range v.Args {
				b = append(b, a...)
			}
		}
	}
	return b, nil
}

// Class of a decode attempt (used by the C19 classifier).
type Class int

const (
	// OK: every declared length is satisfied and nothing is left over.
	OK Class = iota
	// Trailing: consistent, but bytes remain after the last field.
	Trailing
	// ShortFixed: the input ends inside the fixed part.
	ShortFixed
	// ShortTable: the argument length table is cut short.
	ShortTable
	// Underrun: fixed part and length table are present but the declared
	// lengths need more bytes than remain.
	Underrun
)

func (c Class) String() string {
	return [...]string{"ok", "trailing", "short-fixed", "short-table", "underrun"}[c]
}

// Decode interprets b per the layout. For OK and Trailing the value is
// complete; otherwise it holds what could be read.
func Decode(layout string, b []byte) (*Value, Class) {
	v := NewValue(layout)
	pos := 0
	lens := map[string]int{}
	argCnt := 0
	var argLens []int
	for _, e := range Layouts[layout] {
		switch e.Kind {
		case U8:
			if pos+1 > len(b) {
				return v, ShortFixed
			}
			v.Ints[e.Name] = int(b[pos])
			pos++
		case Len8:
			if pos+1 > len(b) {
				return v, ShortFixed
			}
			lens[e.Name] = int(b[pos])
			pos++
		case Len16:
			if pos+2 > len(b) {
				return v, ShortFixed
			}
			lens[e.Name] = int(b[pos])<<8 | int(b[pos+1])
			pos += 2
		case ArgCnt:
			if pos+1 > len(b) {
				return v, ShortFixed
			}
			argCnt = int(b[pos])
			pos++
		case ArgLens:
			if pos+argCnt > len(b) {
				return v, ShortTable
			}
			for i := 0; i < argCnt; i++ {
				argLens = append(argLens, int(b[pos+i]))
			}
			pos += argCnt
		case Text:
			n := lens[e.Name]
			if pos+n > len(b) {
				return v, Underrun
			}
			v.Texts[e.Name] = b[pos : pos+n]
			pos += n
		case Args:
			for _, n := range argLens {
				if pos+n > len(b) {
					return v, Underrun
				}
				v.Args = append(v.Args, b[pos:pos+n])
				pos += n
			}
		}
	}
	if pos < len(b) {
		return v, Trailing
	}
	return v, OK
}

// Header is the 12 octet header of section 4.1.
type Header struct {
	Major, Minor int
	Type         int
	Seq          int
	Flags        int
	Session      uint32
	Length       uint32
}

// Encode lays out the header.
func (h Header) Encode() []byte {
	b := make([]byte, 12)
	b[0] = byte(h.Major<<4 | h.Minor&0xf)
	b[1] = byte(h.Type)
	b[2] = byte(h.Seq)
	b[3] = byte(h.Flags)
	binary.BigEndian.PutUint32(b[4:8], h.Session)
	binary.BigEndian.PutUint32(b[8:12], h.Length)
	return b
}

// DecodeHeader reads 12 octets.
func DecodeHeader(b []byte) (Header, bool) {
	if len(b) < 12 {
		return Header{}, false
	}
	return Header{Major: int(b[0] >> 4), Minor: int(b[0] & 0xf), Type: int(b[1]), Seq: int(b[2]), Flags: int(b[3]),
		Session: binary.BigEndian.Uint32(b[4:8]), Length: binary.BigEndian.Uint32(b[8:12])}, true
}

// Version returns the version octet.
func (h Header) Version() byte { return byte(h.Major<<4 | h.Minor&0xf) }

// Pad is the pseudo pad of section 4.5:
// MD5_1 = MD5{session_id, key, version, seq_no}; MD5_n = MD5{session_id, key,
// version, seq_no, MD5_n-1}; concatenated and truncated to n octets.
func Pad(key []byte, session uint32, version, seq byte, n int) []byte {
	pad := make([]byte, 0, n+16)
	var prev []byte
	for len(pad) < n {
		h := md5.New()
		var sid [4]byte
		binary.BigEndian.PutUint32(sid[:], session)
		h.Write(sid[:])
		h.Write(key)
		h.Write([]byte{version})
		h.Write([]byte{seq})
		h.Write(prev)
		prev = h.Sum(nil)
		pad = append(pad, prev...)
	}
	return pad[:n]
}

// Obfuscate returns body XOR pad (its own inverse). With the unencrypted flag
// (bit 0 of the flags octet) the body is returned verbatim.
func Obfuscate(h Header, key, body []byte) []byte {
	out := make([]byte, len(body))
	copy(out, body)
	if h.Flags&0x01 != 0 {
		return out
	}
	pad := Pad(key, h.Session, h.Version(), byte(h.Seq), len(body))
	for i := range out {
		out[i] ^= pad[i]
	}
	return out
}

// Packet builds header ∥ obfuscated body with the true length.
func Packet(h Header, key, clear []byte) []byte {
	h.Length = uint32(len(clear))
	return append(h.Encode(), Obfuscate(h, key, clear)...)
}

// Frame splits a byte stream into packets by the header length field. It
// returns the complete packets and the unconsumed rest.
func Frame(stream []byte) (pkts [][]byte, rest []byte) {
	for len(stream) >= 12 {
		n := int(binary.BigEndian.Uint32(stream[8:12]))
		if n > 1<<24 || len(stream) < 12+n {
			break
		}
		pkts = append(pkts, stream[:12+n])
		stream = stream[12+n:]
	}
	return pkts, stream
}

// RFC enumerations (section 5.1, 5.2, 6.1, 6.2, 7.1, 7.2).
var (
	Actions        = []int{1, 2, 4}
	AuthenTypes    = []int{1, 2, 3, 4, 5, 6} // 0 (not set) only outside authentication START
	Services       = []int{0, 1, 2, 3, 4, 5, 6, 7, 8, 9}
	Methods        = []int{0, 1, 2, 3, 4, 5, 6, 8, 0x10}
	AuthenStatuses = []int{1, 2, 3, 4, 5, 6, 7}
	AuthorStatuses = []int{1, 2, 0x10, 0x11}
	AcctStatuses   = []int{1, 2}
	AcctFlags      = []int{2, 4, 8, 0x0a}
)
