// Package refsrv assembles the reference server exactly as cmds/server/main.go
// does (loader + start handler + bcrypt authenticator + stringy authorizer +
// local accounter + prefix secret provider), with every injection point
// wrapped by a monitor.
package refsrv

import (
	"bytes"
	"context"
	"encoding/hex"
	"encoding/json"
	"fmt"
	"log"
	"net"
	"runtime"
	"strings"
	"sync"
	"sync/atomic"
	"time"

	tq "github.com/facebookincubator/tacquito"
	"github.com/facebookincubator/tacquito/cmds/server/config"
	"github.com/facebookincubator/tacquito/cmds/server/config/accounters/local"
	"github.com/facebookincubator/tacquito/cmds/server/config/authenticators/bcrypt"
	"github.com/facebookincubator/tacquito/cmds/server/config/authorizers/stringy"
	"github.com/facebookincubator/tacquito/cmds/server/config/secret"
	"github.com/facebookincubator/tacquito/cmds/server/config/secret/prefix"
	"github.com/facebookincubator/tacquito/cmds/server/handlers"
	"github.com/facebookincubator/tacquito/cmds/server/loader"
	jsonloader "github.com/facebookincubator/tacquito/cmds/server/loader/json"
	yamlloader "github.com/facebookincubator/tacquito/cmds/server/loader/yaml"
	xbcrypt "golang.org/x/crypto/bcrypt"
	"gopkg.in/yaml.v3"

	"verif/h/kit"
	"verif/h/simnet"
	"verif/h/tap"
)

// Sink is the accounting sink (the acctLogger interface of the local
// accounter). It renders exactly as log.Logger.Printf does.
type Sink struct {
	Net   *simnet.Net
	mu    sync.Mutex
	lines []SinkLine
	Delay func()
	// Std, when set by UseStdLogger, renders through a real *log.Logger.
	Std    *log.Logger
	stdBuf bytes.Buffer
	stdMu  sync.Mutex
}

// UseStdLogger makes the sink render every record through a stock log.Logger
// (no prefix, no flags) writing to a buffer.
func (s *Sink) UseStdLogger() { s.Std = log.New(&s.stdBuf, "", 0) }

// SinkLine is one record handed to the sink.
type SinkLine struct {
	T    int64
	Text string
}

// Printf implements the sink.
func (s *Sink) Printf(format string, args ...interface{}) {
	if s.Delay != nil {
		s.Delay()
	}
	line := fmt.Sprintf(format, args...)
	if s.Std != nil {
		// render through a real log.Logger, exactly what SetLogSinkDefault installs
		s.stdMu.Lock()
		s.stdBuf.Reset()
		s.Std.Printf(format, args...)
		line = strings.TrimSuffix(s.stdBuf.String(), "\n")
		s.stdMu.Unlock()
	}
	var t int64
	if s.Net != nil {
		t = s.Net.Log(0, "acct-sink", len(line), "")
	}
	s.mu.Lock()
	s.lines = append(s.lines, SinkLine{T: t, Text: line})
	s.mu.Unlock()
}

// Lines returns a snapshot.
func (s *Sink) Lines() []SinkLine {
	s.mu.Lock()
	defer s.mu.Unlock()
	return append([]SinkLine{}, s.lines...)
}

// Take returns and clears the recorded lines.
func (s *Sink) Take() []SinkLine {
	s.mu.Lock()
	defer s.mu.Unlock()
	l := s.lines
	s.lines = nil
	return l
}

// KeyStore is the bcrypt authenticator's keychain (getSecret interface).
type KeyStore struct {
	mu     sync.Mutex
	Hashes map[string][]byte // user name -> bcrypt hash
	Fail   map[string]bool   // user name -> keychain error
	Calls  int
	// Slow: user name -> how long the keychain takes to answer (a remote keychain under load)
	Slow map[string]time.Duration
}

// SetSlow makes the keychain slow (or fast again, d == 0) for one user.
func (k *KeyStore) SetSlow(name string, d time.Duration) {
	k.mu.Lock()
	if k.Slow == nil {
		k.Slow = map[string]time.Duration{}
	}
	k.Slow[name] = d
	k.mu.Unlock()
}

// GetSecret implements bcrypt's getSecret.
func (k *KeyStore) GetSecret(ctx context.Context, name, group string) ([]byte, error) {
	k.mu.Lock()
	d := k.Slow[name]
	k.mu.Unlock()
	if d > 0 {
		time.Sleep(d)
	}
	k.mu.Lock()
	defer k.mu.Unlock()
	k.Calls++
	if k.Fail[name] {
		return nil, fmt.Errorf("keychain unavailable for %q", name)
	}
	h, ok := k.Hashes[name]
	if !ok {
		return nil, fmt.Errorf("no keychain entry for %q", name)
	}
	return h, nil
}

// Source is a configuration source pushing ready-made values (the
// `unmarshaled` interface of the loader).
type Source struct{ ch chan config.ServerConfig }

// NewSource creates a source.
func NewSource() *Source { return &Source{ch: make(chan config.ServerConfig, 1)} }

// Config implements loader's unmarshaled interface.
func (s *Source) Config() chan config.ServerConfig { return s.ch }

// Publish hands a configuration to the loader.
func (s *Source) Publish(c config.ServerConfig) { s.ch <- c }

type chanSource struct{ ch chan config.ServerConfig }

func (c chanSource) Config() chan config.ServerConfig { return c.ch }

// Options of the assembly.
type Options struct {
	Net      *simnet.Net
	ViaYAML  bool // render the configuration to YAML and load it with the real yaml loader
	ViaJSON  bool // render to JSON and load it with the real json loader
	Proxy    bool
	Recover  bool // recover handler panics in the tap (C14)
	KeepLogs bool // keep logger entries (C18)
	Keys     *KeyStore
	// WrapSource lets a check interpose on the configuration source.
	NoServe bool // only build the loader (C13 lookups)
	// ExtraWriters: see tap.Tap.ExtraWriters
	ExtraWriters int
	// ShareContext: the loader and Serve run under ONE context, as cmds/server/main.go wires them
	// (cancelling the server then also cancels whatever the loader does with its context)
	ShareContext bool
	// Interpose, if set, is placed between the configuration source and the
	// loader: it receives the source's channel and returns the channel the loader reads.
	Interpose func(in chan config.ServerConfig) chan config.ServerConfig
	// OnLog is called with every rendered logger message (after the internal hook).
	OnLog func(level, text string)
}

type stoppableSource struct {
	inner interface {
		Config() chan config.ServerConfig
	}
	stop *int32
}

func (s stoppableSource) Config() chan config.ServerConfig {
	if atomic.LoadInt32(s.stop) != 0 {
		runtime.Goexit()
	}
	return s.inner.Config()
}

// Ref is a running reference server.
type Ref struct {
	stopped int32
	*kit.Srv
	Loader    *loader.Loader
	Sink      *Sink
	Keys      *KeyStore
	Src       *Source
	YAML      *yamlloader.YAML
	JSON      *jsonloader.JSON
	Ctx       context.Context
	cancel    context.CancelFunc
	srcChan   chan config.ServerConfig // the source's channel
	fwdChan   chan config.ServerConfig // the interposer's output channel (if any)
	sent      int32                    // configurations handed to the source (interposed sources only)
	delivered int32                    // configurations the loader goroutine has received from the interposer
	// LoadedUpdates counts the loader's "updated all prefix filters" messages.
	loadedMu sync.Mutex
	loaded   int
	loadedC  *sync.Cond
}

type handlerFactory struct {
	inner *handlers.Start
	tp    *tap.Tap
	mu    sync.Mutex
	n     int
}

func (f *handlerFactory) New(ctx context.Context, cp config.Provider, options map[string]string) tq.Handler {
	f.mu.Lock()
	f.n++
	id := fmt.Sprintf("start#%d", f.n)
	f.mu.Unlock()
	return f.tp.Wrap(id, f.inner.New(ctx, cp, options))
}

// spanFactory wraps the reference server's SPAN handler type (replicates the packets of a
// connection to a "span host" and then hands the request to the START handler).
type spanFactory struct {
	inner *handlers.Span
	tp    *tap.Tap
	mu    sync.Mutex
	n     int
}

func (f *spanFactory) New(ctx context.Context, cp config.Provider, options map[string]string) tq.Handler {
	h := f.inner.New(ctx, cp, options)
	if h == nil {
		return nil
	}
	f.mu.Lock()
	f.n++
	id := fmt.Sprintf("span#%d", f.n)
	f.mu.Unlock()
	return f.tp.Wrap(id, h)
}

// DeadSpanHost is a span destination nobody listens on (the dial is refused at once).
const DeadSpanHost = "[::1]:1"

// AsSpan turns a scope into a SPAN scope with the given destination.
func AsSpan(sc config.SecretConfig, destination string) config.SecretConfig {
	sc.Handler = config.Handler{Type: config.SPAN, Options: map[string]string{"destination": destination}}
	return sc
}

// Start builds the loader and (unless NoServe) the server, publishes cfg and
// waits until it is loaded.
func Start(cfg config.ServerConfig, opt Options) (*Ref, error) {
	n := opt.Net
	if n == nil {
		n = simnet.New()
	}
	tp := tap.New(n)
	tp.ExtraWriters = opt.ExtraWriters
	tp.Recover = opt.Recover
	lg := tap.NewLogger(opt.KeepLogs)
	keys := opt.Keys
	if keys == nil {
		keys = &KeyStore{Hashes: map[string][]byte{}, Fail: map[string]bool{}}
	}
	sink := &Sink{Net: n}
	ctx, cancel := context.WithCancel(context.Background())
	r := &Ref{Sink: sink, Keys: keys, Ctx: ctx, cancel: cancel}
	r.loadedC = sync.NewCond(&r.loadedMu)
	lg.OnMessage = func(level, text string) {
		if level == "info" && text == "updated all prefix filters, where available, from config source" {
			r.loadedMu.Lock()
			r.loaded++
			r.loadedC.Broadcast()
			r.loadedMu.Unlock()
		}
		if opt.OnLog != nil {
			opt.OnLog(level, text)
		}
	}
	acct, err := local.New(lg, local.SetLogSink(sink))
	if err != nil {
		cancel()
		return nil, err
	}
	var src interface {
		Config() chan config.ServerConfig
	}
	if opt.ViaJSON {
		r.JSON = jsonloader.New()
		src = r.JSON
	} else if opt.ViaYAML {
		r.YAML = yamlloader.New()
		src = r.YAML
	} else {
		r.Src = NewSource()
		src = r.Src
	}
	r.srcChan = src.Config()
	if opt.Interpose != nil {
		// count configurations that are between the two channels
		mid := make(chan config.ServerConfig)
		go func() {
			for c := range r.srcChan {
				mid <- c
			}
		}()
		out := opt.Interpose(mid)
		fwd := make(chan config.ServerConfig)
		go func() {
			for c := range out {
				fwd <- c
				atomic.AddInt32(&r.delivered, 1)
			}
		}()
		r.fwdChan = fwd
		src = chanSource{fwd}
	}
	// tacquito's Loader goroutine has no way to stop. The configuration source is ours, though,
	// and the goroutine asks it for its channel on every turn of its loop: once the instance is
	// closed the source ends that goroutine (runtime.Goexit), so that long runs which start
	// hundreds of thousands of reference servers do not accumulate goroutines and loaders.
	src = stoppableSource{inner: src, stop: &r.stopped}
	ld, err := loader.NewLoader(ctx, src,
		loader.SetLoggerProvider(lg),
		loader.SetKeychainProvider(secret.New()),
		loader.SetConfigProvider(config.New()),
		loader.SetAuthorizerProvider(stringy.New(lg)),
		loader.RegisterSecretProviderType(config.PREFIX, prefix.New(lg)),
		loader.RegisterHandlerType(config.START, &handlerFactory{inner: handlers.NewStart(lg), tp: tp}),
		loader.RegisterHandlerType(config.SPAN, &spanFactory{inner: handlers.NewSpan(lg), tp: tp}),
		loader.RegisterAuthenticator(config.BCRYPT, bcrypt.New(lg, keys)),
		loader.RegisterAccounter(config.FILE, acct),
	)
	if err != nil {
		cancel()
		return nil, err
	}
	r.Loader = ld
	if err := r.Publish(cfg); err != nil {
		cancel()
		return nil, err
	}
	if opt.NoServe {
		r.Srv = &kit.Srv{Net: n, Tap: tp, Log: lg}
		return r, nil
	}
	var sopts []tq.Option
	if opt.Proxy {
		sopts = append(sopts, tq.SetUseProxy(true))
	}
	if opt.ShareContext {
		r.Srv = kit.StartCtx(ctx, cancel, n, tp, lg, ld, sopts...)
		return r, nil
	}
	r.Srv = kit.Start(n, tp, lg, ld, sopts...)
	return r, nil
}

// Publish hands a new configuration to the loader and waits until the loader
// says it has rebuilt providers and filters.
func (r *Ref) Publish(cfg config.ServerConfig) error {
	r.loadedMu.Lock()
	before := r.loaded
	r.loadedMu.Unlock()
	atomic.AddInt32(&r.sent, 1)
	if r.JSON != nil {
		doc, err := json.Marshal(cfg)
		if err != nil {
			atomic.AddInt32(&r.sent, -1)
			return err
		}
		if err := r.JSON.Unmarshal(doc); err != nil {
			atomic.AddInt32(&r.sent, -1)
			return fmt.Errorf("json loader refused the configuration: %w", err)
		}
	} else if r.YAML != nil {
		doc, err := yaml.Marshal(cfg)
		if err != nil {
			atomic.AddInt32(&r.sent, -1)
			return err
		}
		if err := r.YAML.Unmarshal(doc); err != nil {
			atomic.AddInt32(&r.sent, -1)
			return fmt.Errorf("yaml loader refused the configuration: %w", err)
		}
	} else {
		r.Src.Publish(cfg)
	}
	r.waitLoaded(before)
	return nil
}

// waitLoaded is a barrier that does not depend on what the loader logs: first
// wait until the loader goroutine has taken the configuration off the source
// channel (it then rebuilds providers and filters before returning to its
// select loop), then send one lookup through the same loop; when that lookup
// is answered the rebuild has completed.
func (r *Ref) waitLoaded(before int) {
	deadline := time.Now().Add(30 * time.Second)
	for time.Now().Before(deadline) {
		if r.fwdChan == nil {
			if len(r.srcChan) == 0 {
				break
			}
		} else if atomic.LoadInt32(&r.delivered) == atomic.LoadInt32(&r.sent) {
			break
		}
		time.Sleep(50 * time.Microsecond)
	}
	r.Loader.Get(context.Background(), &net.TCPAddr{IP: net.IPv4(203, 0, 113, 254), Port: 1})
}

// PublishDoc feeds a raw document to the real yaml/json loader object (what the
// file watcher does on every change). On success it waits for the loader.
func (r *Ref) PublishDoc(doc []byte) error {
	r.loadedMu.Lock()
	before := r.loaded
	r.loadedMu.Unlock()
	var err error
	atomic.AddInt32(&r.sent, 1)
	switch {
	case r.JSON != nil:
		err = r.JSON.Unmarshal(doc)
	case r.YAML != nil:
		err = r.YAML.Unmarshal(doc)
	default:
		return fmt.Errorf("PublishDoc needs ViaYAML or ViaJSON")
	}
	if err != nil {
		atomic.AddInt32(&r.sent, -1)
		return err
	}
	r.waitLoaded(before)
	return nil
}

// Close stops the server (if any) and the loader.
func (r *Ref) Close() error {
	var err error
	if r.Srv != nil && r.Srv.L != nil {
		err = r.Srv.Stop()
	}
	// end the loader goroutine: raise the flag and wake it with a minimal configuration (see
	// stoppableSource); after that nothing references the configuration, providers and handlers
	atomic.StoreInt32(&r.stopped, 1)
	tiny := config.ServerConfig{
		Secrets: []config.SecretConfig{Scope("closed", "closed", "192.0.2.255/32")},
		Users:   []config.User{{Name: "closed", Scopes: []string{"closed"}}},
	}
	ch := r.srcChan
	if r.fwdChan != nil {
		ch = r.fwdChan
	}
	select {
	case ch <- tiny:
	case <-time.After(2 * time.Second):
	}
	r.cancel()
	// whatever tacquito still references of this instance must not pin the recordings
	if r.Tap != nil {
		r.Tap.Release()
	}
	if r.Sink != nil {
		r.Sink.Take()
	}
	if r.Log != nil {
		r.Log.Release()
	}
	if r.Net != nil {
		r.Net.Release()
	}
	return err
}

// ---- configuration helpers ----

var (
	hashMu    sync.Mutex
	hashCache = map[string]string{}
)

// HashOption returns the `hash` option value (hex of a cost-4 bcrypt hash).
func HashOption(password string) string {
	hashMu.Lock()
	defer hashMu.Unlock()
	if h, ok := hashCache[password]; ok {
		return h
	}
	raw, err := xbcrypt.GenerateFromPassword([]byte(password), xbcrypt.MinCost)
	if err != nil {
		panic(err)
	}
	h := hex.EncodeToString(raw)
	hashCache[password] = h
	return h
}

// RawHash returns the bcrypt hash bytes for the keychain path.
func RawHash(password string) []byte {
	b, _ := hex.DecodeString(HashOption(password))
	return b
}

// Bcrypt returns an authenticator entry using the hash option.
func Bcrypt(password string) *config.Authenticator {
	return &config.Authenticator{Type: config.BCRYPT, Options: map[string]string{"hash": HashOption(password)}}
}

// FileAccounter returns the accounter entry registered by the reference wiring.
func FileAccounter() *config.Accounter {
	return &config.Accounter{Name: "file", Type: config.FILE}
}

// Scope returns a prefix based secret configuration.
func Scope(name, key string, prefixes ...string) config.SecretConfig {
	p, _ := json.Marshal(prefixes)
	return config.SecretConfig{Name: name, Secret: config.Keychain{Group: "tacquito", Key: key},
		Handler: config.Handler{Type: config.START}, Type: config.PREFIX, Options: map[string]string{"prefixes": string(p)}}
}
