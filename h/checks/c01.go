package checks

import (
	"bytes"
	"fmt"

	tq "github.com/facebookincubator/tacquito"
	"verif/h/gen"
	"verif/h/mon"
	"verif/h/rfc8907"
)

// C01 — wire format conforms to RFC 8907 (reference-model monitor, both
// directions). The oracle is the independent layout table in rfc8907.

func init() {
	mon.Register(&mon.Check{
		ID:        "C01",
		Boost:     3,
		Batches:   func(tier string) int { return 16 },
		Run:       runC01,
		Technique: "reference-model runtime monitor: every value is encoded by the library and by an independent table-driven RFC 8907 codec and the bytes compared; reference bytes are decoded by the library and the fields compared",
		Rule: "cases: header sweep (versions x types x seq x all 256 flag octets, byte-asymmetric session ids/lengths), per-body enum sweeps, per-field length sweeps over the wire-width edges, argument count/length sweeps, seeded random values; " +
			"a class is (layout, bucketed length of every text field, bucketed argument count and longest argument); distinct_nontrivial counts classes seen",
		Assumptions: []string{"the layout table in /verif/h/rfc8907 transcribes RFC 8907 sections 4.1, 5.1-5.3, 6.1-6.2, 7.1-7.2 correctly",
			"only values inside the wire widths are judged here (overflow belongs to C02)"},
		MinClasses:       func(tier string) int { return 150 },
		CrashIsViolation: true,
	})
}

func c01Header(b *mon.B, idx int, h rfc8907.Header) {
	b.Eval(1)
	lib := &tq.Header{Version: tq.Version{MajorVersion: uint8(h.Major), MinorVersion: uint8(h.Minor)}, Type: tq.HeaderType(h.Type),
		SeqNo: tq.SequenceNumber(h.Seq), SessionID: tq.SessionID(h.Session), Flags: tq.HeaderFlag(h.Flags), Length: h.Length}
	ref := h.Encode()
	b.Class("header/minor%d/type%d/seq%s/len%s", h.Minor, h.Type, map[bool]string{true: "odd", false: "even"}[h.Seq%2 == 1], lenBucket(int(h.Length)))
	got, err := lib.MarshalBinary()
	if err != nil {
		b.Violate(idx, "C01/encoder-refuses-valid/header", fmt.Sprintf("Header.MarshalBinary refused a valid header %+v: %v", h, err), map[string]interface{}{"header": h})
		return
	}
	if !bytes.Equal(got, ref) {
		off := firstDiff(got, ref)
		b.Violate(idx, fmt.Sprintf("C01/encode-mismatch/header/octet%d", off), fmt.Sprintf("header %+v: library %x, RFC layout %x", h, got, ref),
			map[string]interface{}{"header": h, "lib": hexs(got), "ref": hexs(ref)})
	}
	var d tq.Header
	if err := tq.Unmarshal(ref, &d); err != nil {
		b.Violate(idx, "C01/decode-refuses/header", fmt.Sprintf("Header.UnmarshalBinary refused RFC bytes %x: %v", ref, err), map[string]interface{}{"ref": hexs(ref)})
		return
	}
	wantFlags := h.Flags
	if h.Seq == 2 {
		wantFlags |= 0x04 // documented: decoder turns on single-connect on sequence 2
	}
	bad := ""
	switch {
	case int(d.Version.MajorVersion) != h.Major:
		bad = "major"
	case int(d.Version.MinorVersion) != h.Minor:
		bad = "minor"
	case int(d.Type) != h.Type:
		bad = "type"
	case int(d.SeqNo) != h.Seq:
		bad = "seq"
	case int(d.Flags) != wantFlags:
		bad = "flags"
	case uint32(d.SessionID) != h.Session:
		bad = "session"
	case d.Length != h.Length:
		bad = "length"
	}
	if bad != "" {
		b.Violate(idx, "C01/decode-mismatch/header/"+bad, fmt.Sprintf("decoding %x gave %+v, expected %+v", ref, d, h), map[string]interface{}{"ref": hexs(ref)})
	}
}

func c01Body(b *mon.B, idx int, v *rfc8907.Value, mustAccept bool) {
	b.Eval(1)
	ref, err := v.Encode()
	if err != nil {
		return // outside the wire widths: C02's domain
	}
	b.Class(shape(v))
	if idx%997 == 0 {
		b.Sample(v.Layout, map[string]interface{}{"value": describe(v), "rfc_bytes": hexs(ref)})
	}
	lib := toLib(v)
	got, err := lib.MarshalBinary()
	if err != nil {
		b.Count("encoder_refusals", 1)
		if mustAccept {
			b.Violate(idx, "C01/encoder-refuses-valid/"+v.Layout, fmt.Sprintf("MarshalBinary refused an RFC-valid %s: %v", v.Layout, err),
				map[string]interface{}{"value": describe(v), "ref": hexs(ref)})
		}
	} else if !bytes.Equal(got, ref) {
		off := firstDiff(got, ref)
		b.Violate(idx, fmt.Sprintf("C01/encode-mismatch/%s/%s", v.Layout, elemAt(v, off)),
			fmt.Sprintf("%s: library bytes differ from the RFC layout at offset %d (%s)", v.Layout, off, elemAt(v, off)),
			map[string]interface{}{"value": describe(v), "lib": hexs(got), "ref": hexs(ref), "offset": off})
	} else {
		b.Count("encodings_identical_to_reference", 1)
	}
	d := newLib(v.Layout)
	if err := tq.Unmarshal(ref, d); err != nil {
		b.Count("decoder_refusals", 1)
		if mustAccept {
			b.Violate(idx, "C01/decode-refuses/"+v.Layout, fmt.Sprintf("UnmarshalBinary refused RFC-laid-out bytes of a valid %s: %v", v.Layout, err),
				map[string]interface{}{"value": describe(v), "ref": hexs(ref)})
		}
		return
	}
	if f := diffValues(fromLib(d), v); f != "" {
		b.Violate(idx, fmt.Sprintf("C01/decode-mismatch/%s/%s", v.Layout, f),
			fmt.Sprintf("%s: field %s decoded from RFC bytes differs from the value that was laid out", v.Layout, f),
			map[string]interface{}{"value": describe(v), "ref": hexs(ref), "decoded": describe(fromLib(d))})
	} else {
		b.Count("decodings_identical_to_reference", 1)
	}
	// the same bytes decoded into a value that already holds an earlier packet of this kind (a
	// receiver that keeps one value per connection): the result is what THESE bytes carry
	re := c01Reused[v.Layout]
	if re == nil {
		re = newLib(v.Layout)
		c01Reused[v.Layout] = re
	}
	if err := tq.Unmarshal(ref, re); err != nil {
		c01Reused[v.Layout] = nil
		return
	}
	if f := diffValues(fromLib(re), v); f != "" {
		b.Violate(idx, fmt.Sprintf("C01/decode-into-used-value-mismatch/%s/%s", v.Layout, f),
			fmt.Sprintf("%s: decoding RFC bytes into a value that held an earlier packet gives field %s different from what the bytes carry", v.Layout, f),
			map[string]interface{}{"value": describe(v), "ref": hexs(ref), "decoded": describe(fromLib(re))})
		c01Reused[v.Layout] = nil
	}
}

// c01Reused holds one long-lived value per layout (see above).
var c01Reused = map[string]tq.EncoderDecoder{}

// c01Held is the previous packet encoding, kept across the next MarshalBinary call:
// bytes already handed to a caller must not change when another packet is encoded.
var c01Held struct{ got, ref []byte }

func c01Packet(b *mon.B, idx int, h rfc8907.Header, body []byte) {
	b.Eval(1)
	defer func() {
		if c01Held.got != nil && !bytes.Equal(c01Held.got, c01Held.ref) {
			b.Violate(idx, "C01/encoded-packet-changed-after-a-later-encode", fmt.Sprintf("the %d bytes returned by an earlier Packet.MarshalBinary changed when another packet was encoded (first difference at offset %d)", len(c01Held.ref), firstDiff(c01Held.got, c01Held.ref)), nil)
			c01Held.got = nil
		}
	}()
	h.Length = uint32(len(body))
	ref := append(h.Encode(), body...)
	b.Class("packet/type%d/len%s", h.Type, lenBucket(len(body)))
	lh := &tq.Header{Version: tq.Version{MajorVersion: uint8(h.Major), MinorVersion: uint8(h.Minor)}, Type: tq.HeaderType(h.Type),
		SeqNo: tq.SequenceNumber(h.Seq), SessionID: tq.SessionID(h.Session), Flags: tq.HeaderFlag(h.Flags), Length: h.Length}
	bodyCopy := append([]byte{}, body...)
	if bodyCopy == nil {
		bodyCopy = []byte{}
	}
	p := &tq.Packet{Header: lh, Body: bodyCopy}
	got, err := p.MarshalBinary()
	if err != nil {
		b.Violate(idx, "C01/encoder-refuses-valid/packet", fmt.Sprintf("Packet.MarshalBinary refused header %+v with %d body bytes: %v", h, len(body), err), nil)
	} else if !bytes.Equal(got, ref) {
		b.Violate(idx, "C01/encode-mismatch/packet", fmt.Sprintf("packet bytes differ from header||body at offset %d", firstDiff(got, ref)),
			map[string]interface{}{"lib": hexs(got), "ref": hexs(ref)})
	} else {
		// hold on to the slice the library returned (not a copy) until the next encode
		prevGot, prevRef := c01Held.got, c01Held.ref
		c01Held.got, c01Held.ref = got, append([]byte{}, ref...)
		if prevGot != nil && !bytes.Equal(prevGot, prevRef) {
			b.Violate(idx, "C01/encoded-packet-changed-after-a-later-encode", fmt.Sprintf("the %d bytes returned by an earlier Packet.MarshalBinary changed when this packet (%d bytes) was encoded", len(prevRef), len(ref)), nil)
		}
	}
	var d tq.Packet
	if err := tq.Unmarshal(append([]byte{}, ref...), &d); err != nil {
		b.Violate(idx, "C01/decode-refuses/packet", fmt.Sprintf("Packet.UnmarshalBinary refused %d valid bytes: %v", len(ref), err), map[string]interface{}{"ref": hexs(ref)})
		return
	}
	if d.Header == nil || uint32(d.Header.SessionID) != h.Session || int(d.Header.SeqNo) != h.Seq || int(d.Header.Type) != h.Type || d.Header.Length != h.Length || !bytes.Equal(d.Body, body) {
		b.Violate(idx, "C01/decode-mismatch/packet", "packet decoded from header||body differs", map[string]interface{}{"ref": hexs(ref)})
	}
}

func runC01(b *mon.B) {
	r := gen.New(uint64(b.Seed), 0xC01, uint64(b.Index))
	nb := 16
	idx := 0
	next := func() (int, bool) { // deterministic sweeps are striped over the batches
		i := idx
		idx++
		return i, i%nb == b.Index && b.Want(i)
	}
	// ---- header sweep: both minor versions x 3 types x seq 1..255 x all 256 flag octets
	sessions := []uint32{0, 1, 0x01020304, 0x7fffffff, 0x80000000, 0xffffffff}
	lengths := []uint32{0, 1, 0x0102, 255, 256, 65535, 65536}
	for minor := 0; minor <= 1; minor++ {
		for typ := 1; typ <= 3; typ++ {
			for seq := 1; seq <= 255; seq++ {
				for fl := 0; fl < 256; fl++ {
					i, ok := next()
					// quick tier samples the cross product (every seq and every flag octet still appear)
					if !ok || (!b.Thorough() && (seq*7+fl*3+typ+minor)%24 != 0) {
						continue
					}
					c01Header(b, i, rfc8907.Header{Major: 0xc, Minor: minor, Type: typ, Seq: seq, Flags: fl,
						Session: sessions[(seq+fl)%len(sessions)], Length: lengths[(seq*3+fl)%len(lengths)]})
				}
			}
		}
	}
	for k := 0; k < b.N(300, 6000); k++ {
		i, ok := next()
		if !ok {
			r.U64()
			continue
		}
		c01Header(b, i, rfc8907.Header{Major: 0xc, Minor: r.Intn(2), Type: 1 + r.Intn(3), Seq: 1 + r.Intn(255), Flags: r.Intn(256),
			Session: r.U32(), Length: uint32(r.Intn(65537))})
	}
	// ---- per-layout sweeps
	for _, layout := range allLayouts {
		rl := gen.New(uint64(b.Seed), 0xC01, uint64(len(layout)), uint64(layout[2]), uint64(layout[len(layout)-2]))
		// enum sweep: every member of every integer field, others random members
		for _, f := range intFields(layout) {
			members := enumOf(layout, f)
			if f == "flags" {
				members = nil
				for x := 0; x < 256; x++ {
					members = append(members, x)
				}
			}
			for _, m := range members {
				for rep := 0; rep < b.N(2, 12); rep++ {
					v := smallValue(rl, layout)
					v.Ints[f] = m
					must := true
					if layout == rfc8907.AcctRequest && v.Ints["flags"]&0x04 != 0 && v.Ints["flags"]&0x08 != 0 {
						must = false // stop+watchdog is contradictory (RFC 7.1); refusal is fine
					}
					if layout == rfc8907.AuthenStart && v.Ints["authen_type"] == 1 {
						v.Texts["data"] = fillText(rl, layout, "data", len(v.Texts["data"]), 1, false)
					}
					if i, ok := next(); ok {
						c01Body(b, i, v, must)
					}
				}
			}
		}
		// full enum cross product on the request layouts (thorough)
		if b.Thorough() && (layout == rfc8907.AuthenStart || layout == rfc8907.AuthorRequest || layout == rfc8907.AcctRequest) {
			ifs := intFields(layout)
			var rec func(k int, v *rfc8907.Value)
			rec = func(k int, v *rfc8907.Value) {
				if k == len(ifs) {
					i, ok := next()
					if !ok {
						return
					}
					w := smallValue(rl.Fork(uint64(i)), layout)
					for _, f := range ifs {
						w.Ints[f] = v.Ints[f]
					}
					if layout == rfc8907.AuthenStart && w.Ints["authen_type"] == 1 {
						w.Texts["data"] = fillText(rl, layout, "data", len(w.Texts["data"]), 1, false)
					}
					c01Body(b, i, w, true)
					return
				}
				for _, m := range enumOf(layout, ifs[k]) {
					v.Ints[ifs[k]] = m
					rec(k+1, v)
				}
			}
			rec(0, rfc8907.NewValue(layout))
		}
		// length sweep: each text field over its edges, others small; then pairs of edges
		tfs := textFields(layout)
		for fi, tf := range tfs {
			for _, n := range edgesFor(tf.Max) {
				for rep := 0; rep < b.N(2, 8); rep++ {
					v := smallValue(rl, layout)
					v.Texts[tf.Name] = fillText(rl, layout, tf.Name, n, v.Ints["authen_type"], rep%2 == 1)
					if i, ok := next(); ok {
						c01Body(b, i, v, true)
					}
				}
				for fj := fi + 1; fj < len(tfs); fj++ {
					for _, m := range edgesFor(tfs[fj].Max) {
						if !b.Thorough() && (n+m)%3 != 0 {
							continue
						}
						v := smallValue(rl, layout)
						v.Texts[tf.Name] = fillText(rl, layout, tf.Name, n, v.Ints["authen_type"], false)
						v.Texts[tfs[fj].Name] = fillText(rl, layout, tfs[fj].Name, m, v.Ints["authen_type"], false)
						if i, ok := next(); ok {
							c01Body(b, i, v, true)
						}
					}
				}
			}
		}
		// argument sweeps
		if rfc8907.HasArgs(layout) {
			lo, _ := argLenBounds(layout)
			argLens := []int{lo, lo + 1, 3, 127, 254, 255}
			for _, cnt := range argCntEdges {
				for _, al := range argLens {
					for rep := 0; rep < b.N(1, 4); rep++ {
						v := smallValue(rl, layout)
						v.Args = nil
						for k := 0; k < cnt; k++ {
							n := al
							if rep%2 == 1 { // mixed lengths: a shifted length table is visible
								n = argLens[(k+rep)%len(argLens)]
							}
							v.Args = append(v.Args, makeArg(rl, n))
						}
						if i, ok := next(); ok {
							c01Body(b, i, v, true)
						}
					}
				}
			}
		}
	}
	// ---- random values
	for k := 0; k < b.N(2500, 60000); k++ {
		layout := allLayouts[r.Intn(len(allLayouts))]
		v := randomValue(r, layout)
		if layout == rfc8907.AuthenStart && v.Ints["authen_type"] == 1 {
			v.Texts["data"] = fillText(r, layout, "data", len(v.Texts["data"]), 1, false)
		}
		if b.Want(1_000_000 + k) {
			c01Body(b, 1_000_000+k, v, true)
		}
	}
	// ---- packets = header || body
	for k := 0; k < b.N(150, 3000); k++ {
		n := r.Pick(0, 1, 15, 16, 17, 255, 256, 4096, 65535, 65536, r.Intn(65537))
		h := rfc8907.Header{Major: 0xc, Minor: r.Intn(2), Type: 1 + r.Intn(3), Seq: 1 + r.Intn(255), Flags: r.Intn(256), Session: r.U32()}
		if b.Want(2_000_000 + k) {
			c01Packet(b, 2_000_000+k, h, r.Bytes(n))
		}
	}
}
