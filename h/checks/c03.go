package checks

import (
	"bytes"
	"fmt"
	"verif/h/refsrv"

	tq "github.com/facebookincubator/tacquito"
	"verif/h/gen"
	"verif/h/mon"
	"verif/h/rfc8907"
	"verif/h/simnet"
)

// C03 — body obfuscation is the RFC 8907 section 4.5 MD5 pad, observed at the
// socket in both directions and through Client.Send.

func init() {
	mon.Register(&mon.Check{
		ID:        "C03",
		Boost:     3,
		Batches:   func(tier string) int { return 16 },
		Run:       runC03,
		Technique: "reference-model runtime monitor at the socket: raw bytes written by the real server / Client.Send are compared with header||(body XOR reference MD5 pad); cleartext received by a handler / returned by Client.Send is compared with what the reference obfuscated",
		Rule: "secrets of length 0,1,15,16,17,63,64,65,1024 and random (arbitrary octets), session ids {0,1,0x7fffffff,0x80000000,0xffffffff,0x01020304}+random, both minor versions, every sequence number, body lengths 0..49, 16k-1/16k/16k+1 (k<=64), 4095..4097, 65519..65536, both flag settings, in the client->server, server->client and client directions. " +
			"A class is (direction, secret-length bucket, body-length class, flag, seq parity); distinct_nontrivial counts classes",
		Assumptions: []string{"crypto/md5 is correct; the pad definition in h/rfc8907.Pad transcribes RFC 8907 section 4.5"},
		MinClasses:  func(tier string) int { return 100 },
	})
}

func c03Secret(r *gen.R, k int) []byte {
	lens := []int{0, 1, 15, 16, 17, 63, 64, 65, 1024}
	var n int
	if k%3 == 0 {
		n = lens[(k/3)%len(lens)]
	} else {
		n = 1 + r.Intn(40)
	}
	s := r.Bytes(n)
	if s == nil {
		s = []byte{}
	}
	if n > 2 && r.Chance(1, 3) {
		s[r.Intn(n)] = 0x00
		s[r.Intn(n)] = 0xff
	}
	return s
}

func c03BodyLen(r *gen.R, k int) int {
	switch k % 5 {
	case 0:
		return r.Intn(50)
	case 1:
		return 16*(1+r.Intn(64)) + r.Pick(-1, 0, 1)
	case 2:
		return r.Pick(4095, 4096, 4097)
	case 3:
		return 65519 + r.Intn(18)
	}
	return r.Intn(3000)
}

func bodyClass(n int) string {
	switch {
	case n == 0:
		return "0"
	case n < 16:
		return "1-15"
	case n%16 == 0:
		return "16k"
	case n%16 == 1:
		return "16k+1"
	case n%16 == 15:
		return "16k-1"
	}
	return "other"
}

func sizeClass(n int) string {
	switch {
	case n < 50:
		return "<50"
	case n < 4000:
		return "<4000"
	case n < 65000:
		return "<65000"
	}
	return "64KiB"
}

var c03Sessions = []uint32{0, 1, 0x7fffffff, 0x80000000, 0xffffffff, 0x01020304}

func runC03(b *mon.B) {
	r := gen.New(uint64(b.Seed), 0xC03, uint64(b.Index))
	srv := startLibServer()
	srv.Net.SetKeepLog(false)
	defer srv.Stop()
	caseNo := 0
	nConn := b.N(40, 700)
	perConn := 12
	// the secrets the provider hands to the server are cut from ONE buffer, one after the other, with
	// the rest of the buffer as spare capacity (a keyring loaded in one piece); the harness keeps its
	// own copies for the reference computations and re-compares the buffer at the end
	var keyring []byte
	var ringAt []int
	for cno := 0; cno < nConn; cno++ {
		ringAt = append(ringAt, len(keyring))
		keyring = append(keyring, c03Secret(r.Fork(uint64(7000+cno)), cno+b.Index)...)
	}
	ringAt = append(ringAt, len(keyring))
	keyringCopy := append([]byte{}, keyring...)
	defer func() {
		if !bytes.Equal(keyring, keyringCopy) {
			off := firstDiff(keyring, keyringCopy)
			b.Violate(-1, "C03/secret-buffer-modified", fmt.Sprintf("the buffer the connection secrets were cut from was written to (first difference at offset %d of %d): obfuscating a packet must not touch the key material", off, len(keyring)), nil)
		}
	}()
	for cno := 0; cno < nConn; cno++ {
		secret := keyringCopy[ringAt[cno]:ringAt[cno+1]:ringAt[cno+1]]
		conn := srv.dial(cno+1, keyring[ringAt[cno]:ringAt[cno+1]])
		for k := 0; k < perConn; k++ {
			caseNo++
			sid := c03Sessions[r.Intn(len(c03Sessions))]
			if k%2 == 0 {
				sid = r.U32()
			}
			seq := 1 + 2*((caseNo+b.Index*7)%127) // every odd number up to 253 comes round
			if r.Chance(1, 30) {
				seq = 253
			}
			fl := 0
			if r.Chance(1, 5) {
				fl = 1
			}
			if r.Chance(1, 5) {
				fl |= 4
			}
			typ := 1 + r.Intn(3)
			h := rfc8907.Header{Major: 0xc, Minor: r.Intn(2), Type: typ, Seq: seq, Flags: fl, Session: sid}
			reqLen := c03BodyLen(r, k+cno)
			repLen := c03BodyLen(r, k+cno+2)
			clear := c05Body(r, typ, reqLen, false)
			rep := r.Bytes(repLen)
			if !b.Want(caseNo) {
				continue
			}
			// every fourth reply goes out through Response.Write with a header copied from the
			// request: its length field is stale (the request's), the writer has to refresh it
			srv.Plan.set(sid, planStep{Reply: &rawBody{B: rep}, UseWrite: caseNo%4 == 3})
			written, stray, invs, st, err := srv.step(conn, pktSpec{H: h, Clear: clear}.wire(secret))
			if err != nil {
				b.Inconclusive("case %d: %v", caseNo, err)
				break
			}
			b.Eval(1)
			b.Class("to-server/secret%s/body%s/%s/u%d", lenBucket(len(secret)), bodyClass(reqLen), sizeClass(reqLen), fl&1)
			b.Class("from-server/secret%s/body%s/%s/u%d", lenBucket(len(secret)), bodyClass(repLen), sizeClass(repLen), fl&1)
			b.Count("bytes_xored_checked", reqLen+repLen)
			w := func() map[string]interface{} {
				return map[string]interface{}{"secret": hexs(secret), "request_header": hexs(h.Encode()), "request_len": reqLen, "reply_len": repLen}
			}
			if caseNo%977 == 0 {
				b.Sample("exchange", w())
			}
			if len(invs) != 1 {
				b.Violate(caseNo, "C03/to-server/not-delivered", fmt.Sprintf("a request obfuscated with the reference pad (secret %d bytes, body %d bytes) reached %d handlers", len(secret), reqLen, len(invs)), w())
			} else if !bytes.Equal(invs[0].Body, clear) {
				off := firstDiff(invs[0].Body, clear)
				d := w()
				d["first_difference_at"] = off
				b.Violate(caseNo, fmt.Sprintf("C03/to-server/cleartext-differs/block%s", blockOf(off)), fmt.Sprintf("handler received a body that differs from the cleartext at offset %d (of %d)", off, reqLen), d)
			}
			slug, msg := checkReply(h, secret, replyKind{Name: "raw"}, rep, written, stray)
			if slug != "" {
				d := w()
				if slug == "reply-body-pad" && len(written) == 1 {
					want := rfc8907.Obfuscate(rfc8907.Header{Major: 0xc, Minor: h.Minor, Type: typ, Seq: seq + 1, Flags: fl, Session: sid}, secret, rep)
					off := firstDiff(written[0][12:], want)
					d["first_difference_at"] = off
					slug += "/block" + blockOf(off)
				}
				b.Violate(caseNo, "C03/from-server/"+slug, msg, d)
			}
			if st.Closed {
				break
			}
		}
		conn.EOF()
		srv.Net.Forget(conn)
	}

	// ---- the server's own "bad secret" error packets are obfuscated like any other reply:
	// a receiver holding the server's secret recovers a well-formed ERROR reply, also the
	// second, third, ... time
	for k := 0; k < b.N(20, 400); k++ {
		caseNo++
		if !b.Want(caseNo) {
			continue
		}
		secret := c03Secret(r, k)
		typ := 1 + k%3
		conn := srv.dial(100000+k, secret)
		h := rfc8907.Header{Major: 0xc, Minor: r.Intn(2), Type: typ, Seq: 1, Flags: 0, Session: r.U32()}
		// a body whose length fields under-run under every layout of the type
		seen := []byte{1, 1, 1, 1, 0xf0, 0xf0, 0xf0, 0xf0, 0xff, 0xff, 0xee, 0xee, 9, 9, 9, 9}
		written, stray, invs, _, err := srv.step(conn, pktSpec{H: h, Clear: seen}.wire(secret))
		srv.Net.Forget(conn)
		if err != nil {
			b.Inconclusive("bad-secret case: %v", err)
			break
		}
		b.Eval(1)
		b.Class("from-server/bad-secret-reply/type%d/nth=%s", typ, lenBucket(k/3))
		if len(invs) != 0 || len(written) != 1 || stray != 0 {
			continue // whether it is signalled at all is C19's subject
		}
		rh, _ := rfc8907.DecodeHeader(written[0])
		clear := rfc8907.Obfuscate(rh, secret, written[0][12:])
		v, cls := rfc8907.Decode(replyLayoutOf[typ], clear)
		if cls != rfc8907.OK || v.Ints["status"] != errStatus[typ] {
			b.Violate(caseNo, "C03/from-server/bad-secret-reply-not-recoverable", fmt.Sprintf("error packet #%d of type %d: de-obfuscating it with the connection's secret gives a body that is %s (status %#x), not a well-formed ERROR reply", k/3+1, typ, cls, v.Ints["status"]),
				map[string]interface{}{"secret": hexs(secret), "reply": hexs(written[0])})
		} else {
			b.Count("bad_secret_replies_recovered", 1)
		}
	}
	// ---- a reply whose first write fails: whatever reaches the wire afterwards must still be
	// header||(body XOR pad); nothing at all is fine too
	for k := 0; k < b.N(20, 400); k++ {
		caseNo++
		if !b.Want(caseNo) {
			continue
		}
		secret := c03Secret(r, k+1)
		typ := 1 + r.Intn(3)
		conn := srv.dial(200000+k, secret)
		fail := []error{simnet.TimeoutError(), fmt.Errorf("connection reset by peer")}[k%2]
		conn.FailNextWrites(fail)
		h := rfc8907.Header{Major: 0xc, Minor: r.Intn(2), Type: typ, Seq: 1 + 2*r.Intn(100), Flags: 0, Session: r.U32()}
		rep := r.Bytes(1 + r.Intn(60))
		srv.Plan.set(h.Session, planStep{Reply: &rawBody{B: rep}})
		written, stray, _, st, err := srv.step(conn, pktSpec{H: h, Clear: c05Body(r, typ, 20, false)}.wire(secret))
		if err != nil {
			b.Inconclusive("write-fault case: %v", err)
			break
		}
		b.Eval(1)
		b.Class("from-server/first-write-fails/%d", k%2)
		if len(written) > 0 || stray > 0 {
			if slug, msg := checkReply(h, secret, replyKind{Name: "raw"}, rep, written, stray); slug != "" {
				b.Violate(caseNo, "C03/from-server/after-write-fault/"+slug, "after a failed first write of the reply: "+msg, map[string]interface{}{"secret": hexs(secret), "fault": fail.Error()})
			}
		}
		// the connection (if still open) keeps obfuscating correctly
		if !st.Closed {
			h2 := h
			h2.Session, h2.Seq = r.U32(), 1
			rep2 := r.Bytes(20)
			srv.Plan.set(h2.Session, planStep{Reply: &rawBody{B: rep2}})
			w2, s2, _, _, err := srv.step(conn, pktSpec{H: h2, Clear: c05Body(r, typ, 20, false)}.wire(secret))
			if err == nil {
				if slug, msg := checkReply(h2, secret, replyKind{Name: "raw"}, rep2, w2, s2); slug != "" {
					b.Violate(caseNo, "C03/from-server/after-write-fault-next-request/"+slug, msg, nil)
				}
			}
		}
		conn.EOF()
		srv.Net.Forget(conn)
	}
	// ---- Client.Send over a scripted peer
	for k := 0; k < b.N(150, 4000); k++ {
		caseNo++
		secret := c03Secret(r, k+b.Index)
		typ := 1 + r.Intn(3)
		seq := 1 + r.Intn(254) // the client path sends and receives odd and even numbers freely
		fl := 0
		if r.Chance(1, 5) {
			fl = 1
		}
		sid := c03Sessions[r.Intn(len(c03Sessions))]
		if k%2 == 0 {
			sid = r.U32()
		}
		minor := r.Intn(2)
		reqLen := c03BodyLen(r, k)
		repLen := c03BodyLen(r, k+3)
		reqClear := r.Bytes(reqLen)
		if reqClear == nil {
			reqClear = []byte{}
		}
		repClear := c05Body(r, typ, repLen, false)
		if !b.Want(caseNo) {
			continue
		}
		b.Eval(1)
		b.Class("client/secret%s/body%s/%s/u%d/seq%d", lenBucket(len(secret)), bodyClass(reqLen), sizeClass(reqLen), fl&1, seq%2)
		world := simnet.New()
		world.SetKeepLog(false)
		conn := world.NewConn(simnet.RemoteFor(k))
		cl := tq.NewClientFromConn(conn, secret)
		rh := rfc8907.Header{Major: 0xc, Minor: minor, Type: typ, Seq: seq%255 + 1, Flags: fl, Session: sid}
		conn.Feed(pktSpec{H: rh, Clear: repClear}.wire(secret))
		conn.EOF()
		body := append([]byte{}, reqClear...)
		hdr := tq.NewHeader(tq.SetHeaderVersion(tq.Version{MajorVersion: 0xc, MinorVersion: uint8(minor)}), tq.SetHeaderType(tq.HeaderType(typ)),
			tq.SetHeaderSeqNo(seq), tq.SetHeaderFlag(tq.HeaderFlag(fl)), tq.SetHeaderSessionID(tq.SessionID(sid)))
		// the ways a caller can put a packet together; the length field of the header is the
		// writer's business whatever the caller left in it
		var req *tq.Packet
		style := k % 5
		switch style {
		case 0:
			req = tq.NewPacket(tq.SetPacketHeader(hdr), tq.SetPacketBody(body))
		case 1:
			req = tq.NewPacket(tq.SetPacketBody(body), tq.SetPacketHeader(hdr))
		case 2:
			req = &tq.Packet{Header: hdr, Body: body}
		case 3: // stale length, shorter than the body (a reused header)
			req = &tq.Packet{Header: hdr, Body: body}
			if reqLen > 0 {
				hdr.Length = uint32(r.Intn(reqLen))
			}
		case 4: // stale length, longer than the body
			req = &tq.Packet{Header: hdr, Body: body}
			hdr.Length = uint32(reqLen + 1 + r.Intn(300))
		}
		b.Class("client/packet-built-style%d", style)
		got, err := cl.Send(req)
		w := map[string]interface{}{"secret": hexs(secret), "seq": seq, "flags": fl, "session": sid, "request_len": reqLen, "reply_len": repLen, "packet_style": style}
		wantWire := pktSpec{H: rfc8907.Header{Major: 0xc, Minor: minor, Type: typ, Seq: seq, Flags: fl, Session: sid}, Clear: reqClear}.wire(secret)
		out := conn.Output()
		if !bytes.Equal(out, wantWire) {
			off := firstDiff(out, wantWire)
			where := "header"
			if off >= 12 {
				where = "body/block" + blockOf(off-12)
			}
			b.Violate(caseNo, "C03/client/wire-differs/"+where, fmt.Sprintf("Client.Send wrote bytes that differ from header||(body XOR RFC pad) at offset %d", off), w)
			continue
		}
		if err != nil {
			b.Violate(caseNo, "C03/client/send-error", fmt.Sprintf("Client.Send could not read a reply obfuscated with the reference pad: %v", err), w)
			continue
		}
		if !bytes.Equal(got.Body, repClear) {
			b.Violate(caseNo, "C03/client/cleartext-differs", fmt.Sprintf("Client.Send returned a body differing from the cleartext at offset %d", firstDiff(got.Body, repClear)), w)
			continue
		}
		b.Count("client_exchanges_conforming", 1)
		b.Count("bytes_xored_checked", reqLen+repLen)
	}
	c03Reference(b, r.Fork(0xC03A), &caseNo)
}

// c03Reference: on the reference server the pad is keyed by the secret as it stands in the
// configuration - whatever characters it contains.
func c03Reference(b *mon.B, r *gen.R, caseNo *int) {
	for k := 0; k < b.N(3, 30); k++ {
		*caseNo++
		if !b.Want(*caseNo) {
			continue
		}
		sc := richConfig(r, 1)
		keyText := "k" + r.Alnum(4) + r.PickS("$x"+r.Alnum(2), "${HOME}", "$$", "%s%d", " with spaces ", "\\n", "#'\"", "~user", "é-ü")
		sc.Scopes[0].Key = keyText
		sc.Cfg.Secrets[0].Secret.Key = keyText
		ref, err := refsrv.Start(sc.Cfg, refsrv.Options{Keys: sc.Keys, ViaYAML: k%2 == 0, ViaJSON: k%2 == 1})
		if err != nil {
			b.Inconclusive("reference configuration did not load: %v", err)
			continue
		}
		b.Eval(1)
		b.Class("reference-server/secret-with-special-characters/%d", k%9)
		rc := newRefConn(ref, k+1, []byte(keyText))
		res := rc.send(rfc8907.Header{Major: 0xc, Type: 2, Seq: 1, Session: r.U32()}, bAuthorRequest(6, 1, 1, 1, "alice", "p", "r", "service=shell", "cmd=show", "cmd-arg=version"), true)
		switch {
		case res.Err != nil:
			b.Inconclusive("reference pass: %v", res.Err)
		case len(res.Replies) != 1 || res.Replies[0].Value == nil || len(res.Invs) != 1:
			b.Violate(*caseNo, "C03/reference-server/pad-not-keyed-by-the-configured-secret", fmt.Sprintf("scope secret %q: a request obfuscated with exactly that secret reached %d handlers and the %d replies do not de-obfuscate to a well-formed reply under it", keyText, len(res.Invs), len(res.Replies)),
				map[string]interface{}{"configured_secret": keyText})
		default:
			b.Count("reference_server_exchanges_under_configured_secret", 1)
		}
		ref.Close()
	}
}

// blockOf names which MD5 block of the pad an offset falls in.
func blockOf(off int) string {
	switch {
	case off < 0:
		return "?"
	case off < 16:
		return "1"
	case off < 32:
		return "2"
	}
	return "3+"
}
