package checks

import (
	"context"
	"fmt"
	"net"
	"net/netip"
	"strings"
	"sync"

	"github.com/facebookincubator/tacquito/cmds/server/config"
	"verif/h/gen"
	"verif/h/mon"
	"verif/h/refsrv"
	"verif/h/rfc8907"
	"verif/h/simnet"
)

// C13 — admission: deny beats allow, first matching scope wins, users stay scoped.

func init() {
	mon.Register(&mon.Check{
		ID:        "C13",
		Boost:     4,
		Batches:   func(tier string) int { return 16 },
		Run:       runC13,
		Technique: "reference-evaluator runtime monitor: an independent admission evaluator (net/netip containment on unmapped addresses) predicts refusal or the bound scope for every (configuration, remote address); observed at Loader.Get (scope identified by its unique key) and on the full server over simnet with fabricated remote addresses (event log of refused connections, AAA outcomes under the expected key)",
		Rule: "configurations: 1-14 ordered scopes with overlapping IPv4/IPv6 prefixes and distinct keys, deny/allow lists of valid CIDRs, users in one/several/no scopes, same user name with different passwords per scope; addresses: first/last address of every prefix, the addresses just outside, IPv4-mapped forms, 4- and 16-byte encodings, random. " +
			"A class is (verdict: deny/allow-miss/no-scope/scope index, address family+encoding, which lists exist); distinct_nontrivial counts classes",
		Assumptions: []string{"IPv4(-mapped) address against an IPv6 prefix that covers ::ffff:0:0/96 (e.g. ::/0) and v4-mapped prefix notation are unjudged (net.IPNet and netip disagree there; the property does not say)",
			"only valid CIDRs are configured in deny/allow lists, as the property's quantifier says"},
		MinClasses: func(tier string) int { return 40 },
	})
}

var c13V4 = []string{"10.0.0.0/8", "10.1.0.0/16", "10.1.2.0/24", "10.1.2.3/32", "10.1.2.128/25", "192.0.2.0/24", "172.16.0.0/12", "0.0.0.0/0", "10.1.2.77/24"}
var c13V6 = []string{"2001:db8::/32", "2001:db8:1::/48", "2001:db8:1:2::/64", "fd00::/8", "::1/128", "2001:db8:1:2::5/128", "::/0"}

type c13Scope struct {
	Name     string
	Key      string
	Prefixes []string
	HasUsers bool
}

type c13World struct {
	Cfg    config.ServerConfig
	Scopes []c13Scope
	Roamer map[string]bool // scope names the multi-scope user "roamer" is assigned to
	Deny   []string
	Allow  []string
	// same-named user "sam" has a different password in every scope it is in
	SamPw map[string]string
	Only  map[string]string // scope -> a user that exists only there
	All   []string
}

func c13Config(r *gen.R) *c13World {
	w := &c13World{SamPw: map[string]string{}, Only: map[string]string{}}
	pick := func() string {
		if r.Chance(2, 3) {
			return c13V4[r.Intn(len(c13V4)-1)+r.Intn(2)%1] // rarely the last entries
		}
		return c13V6[r.Intn(len(c13V6)-1)]
	}
	pickAny := func() string {
		if r.Chance(1, 25) {
			return "::/0"
		}
		if r.Chance(1, 25) {
			return "0.0.0.0/0"
		}
		return pick()
	}
	ns := 1 + r.Intn(6)
	if r.Chance(1, 4) {
		ns = 7 + r.Intn(8) // many scopes, most of them small
	}
	for k := 0; k < ns; k++ {
		s := c13Scope{Name: fmt.Sprintf("sc%d", k), Key: fmt.Sprintf("key%d-%s", k, r.Alnum(6)), HasUsers: !r.Chance(1, 6)}
		for i, n := 0, 1+r.Intn(3); i < n; i++ {
			s.Prefixes = append(s.Prefixes, pickAny())
		}
		w.Scopes = append(w.Scopes, s)
		w.Cfg.Secrets = append(w.Cfg.Secrets, refsrv.Scope(s.Name, s.Key, s.Prefixes...))
		w.All = append(w.All, s.Prefixes...)
	}
	if !w.Scopes[0].HasUsers && ns == 1 {
		w.Scopes[0].HasUsers = true
	}
	anyUsers := false
	for _, s := range w.Scopes {
		anyUsers = anyUsers || s.HasUsers
	}
	if !anyUsers {
		w.Scopes[0].HasUsers = true
	}
	if r.Chance(1, 2) {
		for i, n := 0, 1+r.Intn(3); i < n; i++ {
			w.Deny = append(w.Deny, pick())
		}
	}
	if r.Chance(1, 3) {
		for i, n := 0, 1+r.Intn(3); i < n; i++ {
			w.Allow = append(w.Allow, pickAny())
		}
	}
	w.Cfg.PrefixDeny, w.Cfg.PrefixAllow = w.Deny, w.Allow
	w.All = append(append(w.All, w.Deny...), w.Allow...)
	// users
	for _, s := range w.Scopes {
		if !s.HasUsers {
			continue
		}
		pw := "sam-" + s.Name + "-" + r.Alnum(6)
		w.SamPw[s.Name] = pw
		w.Cfg.Users = append(w.Cfg.Users, config.User{Name: "sam", Scopes: []string{s.Name}, Authenticator: refsrv.Bcrypt(pw), Commands: []config.Command{permitAll()}})
		only := "only-" + s.Name
		w.Only[s.Name] = only
		w.Cfg.Users = append(w.Cfg.Users, config.User{Name: only, Scopes: []string{s.Name}, Authenticator: refsrv.Bcrypt("pw-" + only), Commands: []config.Command{permitAll()}, Accounter: refsrv.FileAccounter()})
	}
	// a user assigned to several scopes, listed in an order of its own (not the order of the secret
	// configurations): it exists in exactly those scopes
	var withUsers []string
	for _, s := range w.Scopes {
		if s.HasUsers {
			withUsers = append(withUsers, s.Name)
		}
	}
	w.Roamer = map[string]bool{}
	if len(withUsers) >= 2 {
		p := r.Perm(len(withUsers))
		n := 2 + r.Intn(len(withUsers)-1)
		var list []string
		for _, i := range p[:n] {
			list = append(list, withUsers[i])
			w.Roamer[withUsers[i]] = true
		}
		w.Cfg.Users = append(w.Cfg.Users, config.User{Name: "roamer", Scopes: list, Authenticator: refsrv.Bcrypt("pw-roamer"), Commands: []config.Command{permitAll()}})
	}
	return w
}

func contains(cidr string, a netip.Addr) bool {
	p, err := netip.ParsePrefix(cidr)
	if err != nil {
		return false
	}
	return p.Masked().Contains(a)
}

// coversMapped: an IPv6 prefix that covers the IPv4-mapped range.
func coversMapped(cidr string) bool {
	p, err := netip.ParsePrefix(cidr)
	if err != nil || !p.Addr().Is6() || p.Addr().Is4In6() {
		return err == nil && p.Addr().Is4In6()
	}
	return p.Masked().Contains(netip.MustParseAddr("::ffff:1.2.3.4"))
}

// evaluate returns ("refused:<why>", -1) or ("scope", index); unjudged=true
// when the documented semantics do not decide.
func (w *c13World) evaluate(ip net.IP) (verdict string, scope int, unjudged bool) {
	a, ok := netip.AddrFromSlice(ip)
	if !ok {
		return "refused:bad-address", -1, false
	}
	a = a.Unmap()
	if a.Is4() {
		for _, c := range w.All {
			if coversMapped(c) {
				unjudged = true
			}
		}
	}
	for _, d := range w.Deny {
		if contains(d, a) {
			return "refused:deny", -1, unjudged
		}
	}
	if len(w.Allow) > 0 {
		in := false
		for _, c := range w.Allow {
			if contains(c, a) {
				in = true
			}
		}
		if !in {
			return "refused:allow-miss", -1, unjudged
		}
	}
	for i, s := range w.Scopes {
		if !s.HasUsers {
			continue
		}
		for _, p := range s.Prefixes {
			if contains(p, a) {
				return "scope", i, unjudged
			}
		}
	}
	return "refused:no-scope", -1, unjudged
}

func c13Addresses(r *gen.R, w *c13World) []net.IP {
	var out []net.IP
	add := func(a netip.Addr) {
		if !a.IsValid() {
			return
		}
		b := a.AsSlice()
		out = append(out, net.IP(b))
		if a.Is4() {
			// 16-byte (IPv4-mapped) encoding of the same address
			out = append(out, net.IP(netip.AddrFrom16(a.As16()).AsSlice()))
		}
	}
	for _, c := range w.All {
		p, err := netip.ParsePrefix(c)
		if err != nil {
			continue
		}
		p = p.Masked()
		first := p.Addr()
		add(first)
		add(first.Prev())
		// last address of the prefix
		bs := first.AsSlice()
		bits := p.Bits()
		for i := bits; i < len(bs)*8; i++ {
			bs[i/8] |= 1 << uint(7-i%8)
		}
		last, _ := netip.AddrFromSlice(bs)
		add(last)
		add(last.Next())
		add(first.Next())
	}
	for i := 0; i < 12; i++ {
		if r.Bool() {
			add(netip.AddrFrom4([4]byte{10, byte(r.Intn(3)), byte(r.Intn(4)), r.Byte()}))
		} else {
			b := [16]byte{0x20, 0x01, 0x0d, 0xb8, 0, byte(r.Intn(3)), 0, byte(r.Intn(4))}
			b[15] = r.Byte()
			add(netip.AddrFrom16(b))
		}
	}
	add(netip.MustParseAddr("::1"))
	add(netip.MustParseAddr("127.0.0.1"))
	return out
}

func fam(ip net.IP) string {
	switch {
	case len(ip) == 4:
		return "v4/4-byte"
	case ip.To4() != nil:
		return "v4/16-byte-mapped"
	}
	return "v6"
}

func runC13(b *mon.B) {
	r := gen.New(uint64(b.Seed), 0xC13, uint64(b.Index))
	caseNo := 0
	nCfg := b.N(40, 2500)
	for ci := 0; ci < nCfg; ci++ {
		w := c13Config(r)
		full := ci%8 == 0 // every 8th configuration also on the full server
		ref, err := refsrv.Start(w.Cfg, refsrv.Options{ViaYAML: ci%2 == 0, NoServe: !full})
		if err != nil {
			b.Inconclusive("configuration did not load: %v", err)
			continue
		}
		lists := fmt.Sprintf("deny=%v/allow=%v", len(w.Deny) > 0, len(w.Allow) > 0)
		keyScope := map[string]int{}
		for i, s := range w.Scopes {
			keyScope[s.Key] = i
		}
		addrs := c13Addresses(r, w)
		for ai, ip := range addrs {
			caseNo++
			if !b.Want(caseNo) {
				continue
			}
			b.Eval(1)
			verdict, want, unj := w.evaluate(ip)
			secret, handler, gerr := ref.Loader.Get(context.Background(), &net.TCPAddr{IP: ip, Port: 1000 + ai})
			got := -1
			if gerr == nil && secret != nil && handler != nil {
				if i, ok := keyScope[string(secret)]; ok {
					got = i
				} else {
					got = -2
				}
			}
			vclass := verdict
			if want >= 0 {
				vclass = fmt.Sprintf("scope-index-%d", want)
			}
			if unj {
				b.Class("lookup/unjudged/%s", fam(ip))
				b.Count("lookups_unjudged", 1)
				continue
			}
			b.Class("lookup/%s/%s/%s", vclass, fam(ip), lists)
			b.Count("lookups_judged", 1)
			wit := func() map[string]interface{} {
				var scs []string
				for _, s := range w.Scopes {
					scs = append(scs, fmt.Sprintf("%s %v users=%v", s.Name, s.Prefixes, s.HasUsers))
				}
				return map[string]interface{}{"address": ip.String(), "address_bytes": len(ip), "deny": w.Deny, "allow": w.Allow, "scopes_in_order": scs,
					"evaluator": vclass, "observed_scope_index": got, "lookup_error": fmt.Sprint(gerr)}
			}
			if ai == 3 && ci%97 == 0 {
				b.Sample("lookup", wit())
			}
			switch {
			case want < 0 && got != -1:
				b.Violate(caseNo, "C13/admitted-should-refuse/"+strings.TrimPrefix(verdict, "refused:"), fmt.Sprintf("address %s is %s but the lookup bound it to scope index %d", ip, verdict, got), wit())
			case want >= 0 && got == -1:
				b.Violate(caseNo, "C13/refused-should-admit", fmt.Sprintf("address %s should be served by scope %s but the lookup refused it: %v", ip, w.Scopes[want].Name, gerr), wit())
			case want >= 0 && got != want:
				rel := "later"
				if got < want {
					rel = "earlier-without-match"
				}
				b.Violate(caseNo, "C13/wrong-scope/"+rel, fmt.Sprintf("address %s should be bound to the first matching scope %s (index %d) but got index %d", ip, w.Scopes[want].Name, want, got), wit())
			}
			// ---- the same address on the full server
			if full && ai%3 == 0 {
				c13FullServer(b, r, caseNo, w, ref, ip, ai, verdict, want)
			}
		}
		// ---- the same lookups asked at the same instant: every connection is bound by its own
		// address, whatever other connections are being set up meanwhile
		if ci%4 == 1 && len(addrs) > 1 {
			caseNo++
			if b.Want(caseNo) {
				b.Eval(1)
				b.Class("concurrent-lookups/scopes%s/%s", lenBucket(len(w.Scopes)), lists)
				type res struct {
					ip        net.IP
					want, got int
					verdict   string
				}
				var mu sync.Mutex
				var bad []res
				var wg sync.WaitGroup
				gate := make(chan struct{})
				nG := 8
				for g := 0; g < nG; g++ {
					wg.Add(1)
					gr := r.Fork(uint64(5000 + g))
					go func(g int) {
						defer wg.Done()
						<-gate
						for k := 0; k < 24; k++ {
							ip := addrs[gr.Intn(len(addrs))]
							verdict, want, unj := w.evaluate(ip)
							if unj {
								continue
							}
							secret, handler, gerr := ref.Loader.Get(context.Background(), &net.TCPAddr{IP: ip, Port: 3000 + g})
							got := -1
							if gerr == nil && secret != nil && handler != nil {
								if i, ok := keyScope[string(secret)]; ok {
									got = i
								} else {
									got = -2
								}
							}
							if got != want && !(want < 0 && got == -1) {
								mu.Lock()
								bad = append(bad, res{ip, want, got, verdict})
								mu.Unlock()
							}
						}
					}(g)
				}
				close(gate)
				wg.Wait()
				b.Count("concurrent_lookup_rounds", 1)
				if len(bad) > 0 {
					x := bad[0]
					b.Violate(caseNo, "C13/concurrent-lookup-bound-to-another-address-scope", fmt.Sprintf("%d of %d lookups issued concurrently were bound wrongly; e.g. address %s (%s, scope index %d expected) got scope index %d", len(bad), nG*24, x.ip, x.verdict, x.want, x.got),
						map[string]interface{}{"address": x.ip.String(), "expected_scope_index": x.want, "observed_scope_index": x.got, "deny": w.Deny, "allow": w.Allow})
				}
			}
		}
		ref.Close()
	}
}

func c13FullServer(b *mon.B, r *gen.R, caseNo int, w *c13World, ref *refsrv.Ref, ip net.IP, ai int, verdict string, want int) {
	ref.Net.SetKeepLog(true)
	t0 := ref.Net.Now()
	c := ref.L.Dial(&net.TCPAddr{IP: ip, Port: 2000 + ai})
	defer func() {
		if !c.Closed() {
			c.EOF()
			c.WaitClosed()
		}
		ref.Net.Forget(c)
	}()
	st, err := c.WaitQuiescent()
	if err != nil {
		b.Inconclusive("watchdog on admission")
		return
	}
	b.Count("full_server_connections", 1)
	if want < 0 {
		b.Class("server/refused/%s", verdict)
		if !st.Closed {
			b.Violate(caseNo, "C13/server/refused-connection-open", fmt.Sprintf("connection from %s (%s) was not closed", ip, verdict), nil)
			return
		}
		for _, e := range ref.Net.EventsSince(t0) {
			if e.Conn != c.ID {
				continue
			}
			switch e.Kind {
			case simnet.KAccept, simnet.KRemoteAddr, simnet.KClose:
			default:
				b.Violate(caseNo, "C13/server/refused-connection-touched/"+e.Kind, fmt.Sprintf("refused connection from %s: the server performed %s on it", ip, e.Kind), nil)
				return
			}
		}
		if len(c.Output()) != 0 {
			b.Violate(caseNo, "C13/server/bytes-written-to-refused-client", fmt.Sprintf("%d bytes written to a refused client", len(c.Output())), nil)
		}
		return
	}
	b.Class("server/served/scope-index-%d", want)
	if st.Closed {
		b.Violate(caseNo, "C13/server/admissible-connection-closed", fmt.Sprintf("connection from %s should be served by %s but was closed", ip, w.Scopes[want].Name), nil)
		return
	}
	sc := w.Scopes[want]
	rc := &refConn{ref: ref, c: c, key: []byte(sc.Key), last: map[uint32]int{}}
	sid := uint32(caseNo * 16)
	pap := func(user, pw string) int {
		sid++
		res := rc.send(rfc8907.Header{Major: 0xc, Minor: 1, Type: 1, Seq: 1, Session: sid}, bAuthenStart(1, 1, 2, 1, user, "p", "r", pw), true)
		if len(res.Replies) != 1 {
			return -100 - len(res.Replies)
		}
		return res.Replies[0].status()
	}
	// the bound scope's key and users work
	if s := pap("sam", w.SamPw[sc.Name]); s != 1 {
		b.Violate(caseNo, "C13/server/bound-scope-login-fails", fmt.Sprintf("sam's password of scope %s under that scope's key answered %d instead of PASS", sc.Name, s), map[string]interface{}{"address": ip.String()})
		return
	}
	// same name, password of another scope: must not pass
	for other, pw := range w.SamPw {
		if other != sc.Name {
			if s := pap("sam", pw); s == 1 {
				b.Violate(caseNo, "C13/server/foreign-scope-password-accepted", fmt.Sprintf("connection bound to %s accepted sam's password of scope %s", sc.Name, other), nil)
			}
			break
		}
	}
	// a user that exists only in another scope does not exist here
	for other, u := range w.Only {
		if other != sc.Name {
			if s := pap(u, "pw-"+u); s == 1 {
				b.Violate(caseNo, "C13/server/foreign-scope-user-exists", fmt.Sprintf("connection bound to %s authenticated %s, a user of scope %s only", sc.Name, u, other), nil)
			}
			sid++
			res := rc.send(rfc8907.Header{Major: 0xc, Type: 2, Seq: 1, Session: sid}, bAuthorRequest(6, 1, 1, 1, u, "p", "r", "service=shell", "cmd=show"), true)
			if len(res.Replies) == 1 && (res.Replies[0].status() == 1 || res.Replies[0].status() == 2) {
				b.Violate(caseNo, "C13/server/foreign-scope-user-authorized", fmt.Sprintf("connection bound to %s authorized %s, a user of scope %s only", sc.Name, u, other), nil)
			}
			break
		}
	}
	// the multi-scope user exists in exactly the scopes it lists
	if len(w.Roamer) > 0 {
		s := pap("roamer", "pw-roamer")
		if w.Roamer[sc.Name] && s != 1 {
			b.Violate(caseNo, "C13/server/multi-scope-user-missing-in-assigned-scope", fmt.Sprintf("roamer is assigned to scope %s (among %d scopes) but its login on a connection bound to that scope answered %d", sc.Name, len(w.Roamer), s), nil)
		}
		if !w.Roamer[sc.Name] && s == 1 {
			b.Violate(caseNo, "C13/server/multi-scope-user-in-unassigned-scope", fmt.Sprintf("roamer is not assigned to scope %s but its login on a connection bound to that scope passed", sc.Name), nil)
		}
		b.Class("server/multi-scope-user/assigned=%v", w.Roamer[sc.Name])
	}
	b.Count("full_server_scope_bindings_confirmed", 1)
}
