package checks

import (
	"fmt"
	"strings"
	"verif/h/refsrv"

	tq "github.com/facebookincubator/tacquito"
	"verif/h/gen"
	"verif/h/mon"
	"verif/h/rfc8907"
	"verif/h/simnet"
	"verif/h/tap"
)

// C08 — sequence numbers enforced per session (model-based monitor over
// connection histories).

func init() {
	mon.Register(&mon.Check{
		ID:        "C08",
		Boost:     10,
		Batches:   func(tier string) int { return 16 },
		Run:       runC08,
		Technique: "model-based runtime monitor: generated (session, sequence number, handler behaviour) histories are played in lock-step against the real connection loop; every handler invocation (identity included) and every connection close is compared with an executable session/sequence model",
		Rule: "histories over 1-3 session ids with sequence alphabets biased to collisions (replays, even numbers, decreases, jumps, 253/255 endings, packets after a session finished, first packets with seq != 1); handler behaviour per step in {reply+continuation, reply only, continuation only, neither}; ALL histories of length <= 4 over {1,2,3,5,253,255}x{A,B} are enumerated (two behaviour assignments each); walks to 255 followed by 1. " +
			"A class is (verdict of the last packet: accept-initial/accept-continuation/reject reason, history length, previous behaviour); distinct histories are counted",
		Assumptions: []string{"RESTART replies are not used in these scripts (their effect on the stored number is not stated by the property)"},
		MinClasses:  func(tier string) int { return 25 },
	})
}

type c08Act int

const (
	actReplyNext c08Act = iota
	actReply
	actNext
	actNone
)

func (a c08Act) String() string { return [...]string{"reply+next", "reply", "next", "none"}[a] }

type c08Pkt struct {
	Sid   uint32
	Seq   int
	Act   c08Act
	Flags int // header flag octet (the property does not depend on it)
	Type  int // packet type 1..3 (0 = 1); the property does not depend on it either
}

// c08Model is the executable statement of the property for one connection.
type c08Model struct {
	last map[uint32]int
	cont map[uint32]string
}

func newC08Model() *c08Model { return &c08Model{last: map[uint32]int{}, cont: map[uint32]string{}} }

// predict returns ("", reason) for a rejection or (handlerID, "") for dispatch.
func (m *c08Model) predict(p c08Pkt) (string, string) {
	if p.Seq%2 == 0 {
		return "", "even"
	}
	if last, ok := m.last[p.Sid]; ok {
		if p.Seq <= last {
			switch {
			case last >= 255:
				return "", "after-255"
			case p.Seq == last || p.Seq == last-1:
				return "", "replayed-number"
			}
			return "", "decreasing"
		}
		return m.cont[p.Sid], ""
	}
	return "initial", ""
}

// apply records the effect of a dispatched packet.
func (m *c08Model) apply(p c08Pkt, contID string) {
	switch p.Act {
	case actReplyNext:
		m.last[p.Sid] = p.Seq + 1
		m.cont[p.Sid] = contID
	case actNext:
		m.last[p.Sid] = p.Seq
		m.cont[p.Sid] = contID
	default:
		delete(m.last, p.Sid)
		delete(m.cont, p.Sid)
	}
}

// c08Planner is the scripted handler: behaviour of the next invocation is set
// by the test right before it sends a packet.
type c08Planner struct {
	act    c08Act
	contID string
}

func (p *c08Planner) Handle(resp tq.Response, req tq.Request) {
	if p.act == actReplyNext || p.act == actNext {
		resp.Next(&tap.Named{ID: p.contID, H: p})
	}
	if p.act == actReplyNext || p.act == actReply {
		resp.Reply(&rawBody{B: []byte{1, 0, 0, 0, 0, 0}})
	}
}

type c08Runner struct {
	b       *mon.B
	srv     *libServer
	pl      *c08Planner
	secret  []byte
	r       *gen.R
	connNo  int
	seen    map[string]bool
	caseNo  int
	samples int
}

func histKey(h []c08Pkt) string {
	var sb strings.Builder
	ids := map[uint32]byte{}
	for _, p := range h {
		if _, ok := ids[p.Sid]; !ok {
			ids[p.Sid] = byte(len(ids))
		}
		name := string(rune('A' + int(ids[p.Sid])%26))
		if ids[p.Sid] >= 26 {
			name = fmt.Sprintf("S%d:", ids[p.Sid])
		}
		fmt.Fprintf(&sb, "%s%d/%d", name, p.Seq, p.Act)
		if p.Flags != 0 || p.Type > 1 {
			fmt.Fprintf(&sb, "(f%x,t%d)", p.Flags, p.Type)
		}
		sb.WriteByte(' ')
	}
	return sb.String()
}

func (c *c08Runner) play(h []c08Pkt) {
	c.caseNo++
	if !c.b.Want(c.caseNo) {
		return
	}
	b := c.b
	key := histKey(h)
	c.seen[key] = true
	c.connNo++
	conn := c.srv.dial(c.connNo, c.secret)
	defer func() {
		conn.EOF()
		c.srv.Net.Forget(conn)
	}()
	m := newC08Model()
	b.Eval(1)
	prevAct := "first"
	for i, p := range h {
		want, reason := m.predict(p)
		contID := fmt.Sprintf("cont:%d:%d:%d", c.connNo, p.Sid, i)
		c.pl.act, c.pl.contID = p.Act, contID
		typ := p.Type
		if typ == 0 {
			typ = 1
		}
		hd := rfc8907.Header{Major: 0xc, Minor: 0, Type: typ, Seq: p.Seq, Flags: p.Flags, Session: p.Sid}
		_, _, invs, st, err := c.srv.step(conn, pktSpec{H: hd, Clear: c05Body(c.r, typ, 9, false)}.wire(c.secret))
		if err != nil {
			b.Inconclusive("history %q: %v", key, err)
			return
		}
		b.Count("packets_played", 1)
		detail := func() map[string]interface{} {
			return map[string]interface{}{"history": key, "step": i, "packet": fmt.Sprintf("session %c seq %d", key[0], p.Seq), "model_says": want + reason,
				"handlers_invoked": len(invs), "connection_closed": st.Closed}
		}
		if want == "" {
			b.Class("reject/%s/len%d/prev=%s", reason, i+1, prevAct)
			if len(invs) != 0 {
				b.Violate(c.caseNo, "C08/dispatched-should-reject/"+reason,
					fmt.Sprintf("history [%s]: packet %d (%s) reached handler %q; the model rejects it", key, i+1, reason, invs[0].HandlerID), detail())
				return
			}
			if !st.Closed {
				b.Violate(c.caseNo, "C08/rejected-but-connection-open/"+reason,
					fmt.Sprintf("history [%s]: packet %d (%s) reached no handler but the connection stays open", key, i+1, reason), detail())
			}
			return
		}
		kind := "continuation"
		if want == "initial" {
			kind = "initial"
		}
		b.Class("accept/%s/len%d/prev=%s", kind, i+1, prevAct)
		if len(invs) != 1 {
			b.Violate(c.caseNo, "C08/not-dispatched-should-accept/"+kind,
				fmt.Sprintf("history [%s]: packet %d should go to the %s handler but %d handlers ran (closed=%v)", key, i+1, kind, len(invs), st.Closed), detail())
			return
		}
		if invs[0].HandlerID != want {
			gotKind := "continuation"
			if invs[0].HandlerID == "initial" {
				gotKind = "initial"
			}
			sig := fmt.Sprintf("C08/wrong-handler/want-%s-got-%s", kind, gotKind)
			if kind == "continuation" && gotKind == "continuation" {
				sig = "C08/wrong-handler/continuation-of-another-step-or-session"
			}
			b.Violate(c.caseNo, sig, fmt.Sprintf("history [%s]: packet %d dispatched to %q, the model expects %q", key, i+1, invs[0].HandlerID, want), detail())
			return
		}
		if st.Closed {
			b.Violate(c.caseNo, "C08/closed-after-accepted-packet", fmt.Sprintf("history [%s]: connection closed after accepted packet %d", key, i+1), detail())
			return
		}
		m.apply(p, contID)
		prevAct = p.Act.String()
	}
	if c.samples < 3 {
		c.samples++
		b.Sample("history", key)
	}
}

func runC08(b *mon.B) {
	r := gen.New(uint64(b.Seed), 0xC08, uint64(b.Index))
	pl := &c08Planner{}
	srv := startLibServer()
	srv.Secrets.h = srv.Tap.Wrap("initial", pl)
	srv.Net.SetKeepLog(false)
	defer srv.Stop()
	c := &c08Runner{b: b, srv: srv, pl: pl, secret: []byte("c08-secret"), r: r, seen: map[string]bool{}}

	// ---- exhaustive: all histories of length <= 4 over {1,2,3,5,253,255} x {A,B}
	seqs := []int{1, 2, 3, 5, 253, 255}
	type sym struct {
		sid uint32
		seq int
	}
	var alphabet []sym
	for _, s := range seqs {
		alphabet = append(alphabet, sym{0xA, s}, sym{0xB, s})
	}
	idx := 0
	var rec func(prefix []c08Pkt, depth int)
	rec = func(prefix []c08Pkt, depth int) {
		if len(prefix) > 0 {
			idx++
			if idx%16 == b.Index {
				for variant := 0; variant < 2; variant++ {
					h := make([]c08Pkt, len(prefix))
					copy(h, prefix)
					hs := uint64(idx)*2654435761 + uint64(variant)*40503
					for i := range h {
						hs = hs*6364136223846793005 + 1442695040888963407
						a := c08Act((hs >> 33) % 4)
						if variant == 0 && (hs>>40)%3 != 0 {
							a = actReplyNext // bias: sessions that stay open exercise the comparisons
						}
						h[i].Act = a
					}
					c.play(h)
				}
			}
		}
		if depth == 4 {
			return
		}
		for _, s := range alphabet {
			rec(append(prefix, c08Pkt{Sid: s.sid, Seq: s.seq}), depth+1)
		}
	}
	rec(nil, 0)
	b.Count("exhaustive_histories_len<=4", len(c.seen))

	// ---- random longer histories biased to collisions
	for k := 0; k < b.N(1500, 60000); k++ {
		nsid := 1 + r.Intn(3)
		sids := []uint32{r.U32(), r.U32(), r.U32()}[:nsid]
		cur := map[uint32]int{}
		n := 2 + r.Intn(9)
		var h []c08Pkt
		for i := 0; i < n; i++ {
			sid := sids[r.Intn(nsid)]
			last := cur[sid]
			var seq int
			switch r.Intn(10) {
			case 0:
				seq = last // replay
			case 1:
				seq = last + 1 // the number the server used
			case 2:
				seq = r.Pick(0, 2, 4, 254)
			case 3:
				seq = last - 2
			case 4:
				seq = r.Pick(253, 255)
			case 5:
				seq = last + 2 + 2*r.Intn(20) // jump
			default:
				seq = last + 2
				if last == 0 {
					seq = r.Pick(1, 1, 1, 3, 7)
				}
			}
			if seq < 0 {
				seq = 1
			}
			if seq > 255 {
				seq = 255
			}
			act := c08Act(r.Pick(0, 0, 0, 1, 2, 3))
			pk := c08Pkt{Sid: sid, Seq: seq, Act: act}
			if k%2 == 1 { // every other history varies the flag octet and the packet type per packet
				pk.Flags = r.Pick(0, 4, 4, 1, 5, 0xf4)
				pk.Type = 1 + r.Intn(3)
			}
			h = append(h, pk)
			if seq%2 == 1 && seq > last {
				cur[sid] = seq
			}
		}
		c.play(h)
	}
	// ---- the top of the number space: walk a session to 253/255, then try again
	for _, tail := range [][]int{{255, 1}, {255, 3}, {255, 255}, {253, 255, 1}, {253, 255, 255}, {255, 2}, {251, 253, 255, 1}} {
		for _, act := range []c08Act{actReplyNext, actNext} {
			var h []c08Pkt
			for _, s := range tail {
				h = append(h, c08Pkt{Sid: 77, Seq: s, Act: act})
			}
			c.play(h)
			// the same with another session interleaved
			h2 := append([]c08Pkt{{Sid: 78, Seq: 1, Act: actReplyNext}}, h...)
			h2 = append(h2, c08Pkt{Sid: 78, Seq: 3, Act: actReply})
			c.play(h2)
		}
	}
	// ---- many sessions open at once on one connection, then the oldest ones are revisited
	for rep := 0; rep < b.N(2, 40); rep++ {
		n := r.Pick(65, 70, 129, 140, 300)
		base := r.U32() &^ 0xfff
		var h []c08Pkt
		for i := 0; i < n; i++ {
			h = append(h, c08Pkt{Sid: base + uint32(i), Seq: 1, Act: actReplyNext})
		}
		victim := base + uint32(r.Intn(3))
		switch rep % 3 {
		case 0:
			h = append(h, c08Pkt{Sid: victim, Seq: 1, Act: actReply}) // replay of a used number: reject
		case 1:
			h = append(h, c08Pkt{Sid: victim, Seq: 3, Act: actReply}) // follow-up: that session's continuation
		case 2:
			h = append(h, c08Pkt{Sid: victim, Seq: 2, Act: actReply}) // the server's own number: reject
		}
		c.play(h)
	}
	b.Count("distinct_histories", len(c.seen))
	_ = simnet.KClose
	c08RefServer(b, r.Fork(0xC08A))
}

// finalStatus reports whether a reply of the reference server ends its session at the protocol
// level: every authorization and accounting reply does, an authentication reply does unless it asks
// for more input (GETDATA, GETUSER, GETPASS).
func finalStatus(rp reply) bool {
	if rp.Header.Type != tAuthen {
		return true
	}
	switch rp.status() {
	case 3, 4, 5:
		return false
	}
	return true
}

// c08RefServer applies the last sentence of the property to the reference server's own handlers:
// a reply that ends the session (final status) registers no continuation and nothing is retained -
// a later packet with that session id starts from the initial handler; a reply that asks for more
// input registers one, and the follow-up packet goes to it.
func c08RefServer(b *mon.B, r *gen.R) {
	sc := richConfig(r, 1)
	ref, err := refsrv.Start(sc.Cfg, refsrv.Options{Keys: sc.Keys, ViaYAML: b.Index%2 == 0})
	if err != nil {
		b.Inconclusive("reference configuration did not load: %v", err)
		return
	}
	defer ref.Close()
	ref.Net.SetKeepLog(false)
	key := []byte(sc.Scopes[0].Key)
	caseNo := 1 << 24
	for k := 0; k < b.N(60, 1500); k++ {
		caseNo++
		rec := pickRecipe(r, sc)
		after := r.PickS("start-again", "start-again", "follow-up", "other-type")
		if !b.Want(caseNo) {
			continue
		}
		b.Eval(1)
		rc := newRefConn(ref, k%60000+1, key)
		sid := r.U32()
		seq := 1
		ended := false // the session got a final reply
		lastLabel := ""
		wit := func() map[string]interface{} {
			return map[string]interface{}{"recipe": rec.Name, "user_kind": userKind(sc, rec.User), "last_request": lastLabel, "then": after}
		}
		for _, p := range rec.Pkts {
			if p.SeqOverride != 0 {
				break
			}
			h := rfc8907.Header{Major: 0xc, Minor: p.Minor, Type: p.Type, Seq: seq, Flags: p.Flags, Session: sid}
			res := rc.send(h, p.Body, p.WellFormed)
			lastLabel = p.Label
			if res.Err != nil || res.State.Closed || len(res.Invs) != 1 || len(res.Replies) != 1 {
				break // one request one reply is C07's subject
			}
			iv, rp := res.Invs[0], res.Replies[0]
			fin := finalStatus(rp)
			b.Class("refserver/%s/final=%v/next=%v", pathOf(p.Label), fin, iv.NextSet)
			if fin && iv.NextSet {
				b.Violate(caseNo, "C08/refserver/continuation-kept-with-final-reply/"+pathOf(p.Label), fmt.Sprintf("%s answered with final status %d but a continuation stays registered for the session", p.Label, rp.status()), wit())
			}
			if !fin && !iv.NextSet {
				b.Violate(caseNo, "C08/refserver/no-continuation-after-prompt/"+pathOf(p.Label), fmt.Sprintf("%s answered with status %d (more input wanted) but no continuation is registered", p.Label, rp.status()), wit())
			}
			seq += 2
			if fin {
				ended = true
				break
			}
		}
		if ended && !rc.c.Closed() {
			// nothing of the finished session is retained: whatever comes next under that id is
			// handled by the initial handler of the scope
			var h rfc8907.Header
			var body []byte
			switch after {
			case "start-again":
				h = rfc8907.Header{Major: 0xc, Type: tAuthen, Seq: 1, Session: sid}
				body = bAuthenStart(1, 1, 1, 1, "", "tty0", "192.0.2.1", "")
			case "follow-up":
				h = rfc8907.Header{Major: 0xc, Type: tAuthen, Seq: seq, Session: sid}
				body = bAuthenContinue(0, "whatever", "")
			case "other-type":
				h = rfc8907.Header{Major: 0xc, Type: tAuthor, Seq: 1, Session: sid}
				body = bAuthorRequest(6, 1, 1, 1, "alice", "p", "r", "service=shell", "cmd=show", "cmd-arg=version")
			}
			if h.Seq <= 255 {
				before := ref.Tap.Count()
				rc.c.Feed(pktSpec{H: h, Clear: body}.wire(key))
				st, err := rc.c.WaitQuiescent()
				raws, _ := rc.c.TakePackets()
				var invs []*tap.Inv
				for _, iv := range ref.Tap.Since(before) {
					if iv.Conn == rc.c.ID {
						invs = append(invs, iv)
					}
				}
				b.Class("refserver/after-final/%s", after)
				switch {
				case err != nil:
					b.Inconclusive("reference-server pass: %v", err)
				case len(invs) == 0:
					b.Violate(caseNo, "C08/refserver/finished-session-retained/"+after, fmt.Sprintf("after the final reply of %s a packet with the same session id (seq %d) was not dispatched at all (closed=%v, %d packets written): the finished session is still on record", lastLabel, h.Seq, st.Closed, len(raws)), wit())
				case !strings.HasPrefix(invs[0].HandlerID, "start#"):
					b.Violate(caseNo, "C08/refserver/finished-session-continuation-used/"+after, fmt.Sprintf("after the final reply of %s a packet with the same session id was dispatched to %s instead of the initial handler", lastLabel, invs[0].HandlerID), wit())
				default:
					b.Count("finished_sessions_restarted_from_initial_handler", 1)
				}
			}
		}
		if !rc.c.Closed() {
			rc.c.EOF()
		}
		ref.Net.Forget(rc.c)
		ref.Sink.Take()
	}
}
