package checks

import (
	"fmt"
	"strings"

	"verif/h/gen"
)

// pktPlan is one request of a session recipe. Seq is assigned 1,3,5,.. by
// position unless SeqOverride != 0.
type pktPlan struct {
	Label       string
	Type        int
	Minor       int
	Flags       int
	Body        []byte
	WellFormed  bool
	SeqOverride int
}

// recipe is a predetermined session: the packets are sent whatever the
// server answers (every accepted request must get exactly one reply anyway).
type recipe struct {
	Name string
	Pkts []pktPlan
	// facts for the evaluators
	User     string
	Password string // password presented
	Kind     string // ascii|pap|author|acct|odd
}

const (
	tAuthen = 1
	tAuthor = 2
	tAcct   = 3
)

func asciiLogin(user string, userInStart bool, password string, abortAt int) recipe {
	rc := recipe{Name: "ascii", User: user, Password: password, Kind: "ascii"}
	su := ""
	if userInStart {
		su = user
	}
	rc.Pkts = append(rc.Pkts, pktPlan{Label: "authen/ascii/start", Type: tAuthen, Body: bAuthenStart(1, 1, 1, 1, su, "tty0", "192.0.2.1", ""), WellFormed: true})
	step := 1
	fl := func() int {
		step++
		if abortAt == step {
			return 1
		}
		return 0
	}
	if !userInStart {
		rc.Pkts = append(rc.Pkts, pktPlan{Label: "authen/ascii/continue-user", Type: tAuthen, Body: bAuthenContinue(fl(), user, ""), WellFormed: true})
	}
	rc.Pkts = append(rc.Pkts, pktPlan{Label: "authen/ascii/continue-password", Type: tAuthen, Body: bAuthenContinue(fl(), password, ""), WellFormed: true})
	if abortAt > 0 {
		rc.Name = fmt.Sprintf("ascii-abort@%d", abortAt)
	}
	return rc
}

func papLogin(user, password string, minor int) recipe {
	return recipe{Name: fmt.Sprintf("pap-minor%d", minor), User: user, Password: password, Kind: "pap",
		Pkts: []pktPlan{{Label: fmt.Sprintf("authen/pap-minor%d", minor), Type: tAuthen, Minor: minor, Body: bAuthenStart(1, 1, 2, 1, user, "tty1", "192.0.2.2", password), WellFormed: true}}}
}

func oddAuthen(r *gen.R, user, data string) recipe {
	action := r.Pick(1, 2, 4)
	atype := r.Pick(1, 2, 3, 4, 5, 6)
	service := r.Intn(10)
	minor := r.Intn(2)
	if atype == 1 {
		data = strings.ToValidUTF8(data, "")
	}
	return recipe{Name: "authen-odd", User: user, Password: data, Kind: "odd",
		Pkts: []pktPlan{{Label: fmt.Sprintf("authen/start(action%d,type%d,minor%d)", action, atype, minor), Type: tAuthen, Minor: minor,
			Body: bAuthenStart(action, r.Intn(16), atype, service, user, "p", "r", data), WellFormed: true}}}
}

func authorCmd(user, cmd string, cmdArgs ...string) recipe {
	args := []string{"service=shell", "cmd=" + cmd}
	for _, a := range cmdArgs {
		args = append(args, "cmd-arg="+a)
	}
	return recipe{Name: "author-cmd", User: user, Kind: "author",
		Pkts: []pktPlan{{Label: "author/command", Type: tAuthor, Body: bAuthorRequest(6, 1, 1, 1, user, "tty2", "192.0.2.3", args...), WellFormed: true}}}
}

func authorSession(user string, args ...string) recipe {
	return recipe{Name: "author-session", User: user, Kind: "author",
		Pkts: []pktPlan{{Label: "author/session", Type: tAuthor, Body: bAuthorRequest(6, 1, 1, 1, user, "tty2", "192.0.2.3", args...), WellFormed: true}}}
}

func acct(user string, flags int, args ...string) recipe {
	wf := !(flags&4 != 0 && flags&8 != 0)
	_ = wf
	return recipe{Name: fmt.Sprintf("acct-flags%#x", flags), User: user, Kind: "acct",
		Pkts: []pktPlan{{Label: fmt.Sprintf("acct/flags%#02x", flags), Type: tAcct, Body: bAcctRequest(flags, 6, 1, 1, 1, user, "tty3", "192.0.2.4", args...), WellFormed: true}}}
}

// misc: packets that do not follow any flow
func continueToFreshSession() recipe {
	return recipe{Name: "continue-to-fresh-session", Kind: "odd",
		Pkts: []pktPlan{{Label: "authen/continue-to-fresh-session", Type: tAuthen, Body: bAuthenContinue(0, "hello", ""), WellFormed: true}}}
}

func startMidExchange(user string) recipe {
	rc := asciiLogin(user, false, "x", 0)
	rc.Name = "start-mid-exchange"
	rc.Kind = "odd"
	rc.Pkts[1] = pktPlan{Label: "authen/start-sent-to-getuser-continuation", Type: tAuthen, Body: bAuthenStart(1, 1, 1, 1, user, "tty0", "r", ""), WellFormed: true}
	return rc
}

func wrongTypeBody(r *gen.R, user string) recipe {
	bodies := [][]byte{bAuthenStart(1, 1, 1, 1, user, "p", "r", ""), bAuthenContinue(0, "m", ""), bAuthorRequest(6, 1, 1, 1, user, "p", "r", "service=shell"),
		bAcctRequest(2, 6, 1, 1, 1, user, "p", "r", "task_id=1")}
	typ := 1 + r.Intn(3)
	return recipe{Name: "body-of-another-type", Kind: "odd",
		Pkts: []pktPlan{{Label: fmt.Sprintf("type%d/body-of-another-type-in-the-clear", typ), Type: typ, Flags: 1, Body: bodies[r.Intn(len(bodies))]}}}
}

func garbageClear(r *gen.R) recipe {
	typ := 1 + r.Intn(3)
	return recipe{Name: "garbage-in-the-clear", Kind: "odd",
		Pkts: []pktPlan{{Label: fmt.Sprintf("type%d/garbage-in-the-clear", typ), Type: typ, Flags: 1, Body: r.Bytes(r.Intn(80))}}}
}

func garbageKeyed(r *gen.R) recipe {
	typ := 1 + r.Intn(3)
	return recipe{Name: "garbage-under-the-key", Kind: "odd",
		Pkts: []pktPlan{{Label: fmt.Sprintf("type%d/garbage-under-the-key", typ), Type: typ, Body: r.Bytes(r.Intn(80))}}}
}

func maxSize(r *gen.R, user string) recipe {
	long := func(n int) string { return string(r.Printable(n)) }
	switch r.Intn(5) {
	case 0:
		return recipe{Name: "max-authen-start", Kind: "odd", Pkts: []pktPlan{{Label: "authen/ascii/start-255-byte-fields", Type: tAuthen,
			Body: bAuthenStart(1, 1, 1, 1, long(255), long(255), long(255), ""), WellFormed: true}}}
	case 1:
		var args []string
		for i := 0; i < 255; i++ {
			args = append(args, "cmd-arg="+long(r.Pick(1, 10, 247)))
		}
		args[0], args[1] = "service=shell", "cmd=show"
		return recipe{Name: "max-author", User: user, Kind: "author", Pkts: []pktPlan{{Label: "author/255-arguments", Type: tAuthor,
			Body: bAuthorRequest(6, 1, 1, 1, user, long(255), long(255), args...), WellFormed: true}}}
	case 2:
		var args []string
		for i := 0; i < 255; i++ {
			args = append(args, long(r.Pick(0, 1, 255)))
		}
		return recipe{Name: "max-acct", User: user, Kind: "acct", Pkts: []pktPlan{{Label: "acct/255-arguments", Type: tAcct,
			Body: bAcctRequest(2, 6, 1, 1, 1, user, long(255), long(255), args...), WellFormed: true}}}
	case 3:
		rc := asciiLogin(long(200), false, long(60), 0)
		rc.Name = "ascii-long-user"
		rc.Kind = "odd"
		return rc
	}
	return recipe{Name: "pap-255", Kind: "odd", Pkts: []pktPlan{{Label: "authen/pap/255-byte-fields", Type: tAuthen, Minor: 1,
		Body: bAuthenStart(1, 1, 2, 1, long(255), long(255), long(255), long(255)), WellFormed: true}}}
}

// pickRecipe draws one session recipe for a configuration.
func pickRecipe(r *gen.R, sc *stdCfg) recipe {
	names := make([]string, 0, len(sc.Users)+2)
	for _, u := range sc.Cfg.Users {
		names = append(names, u.Name)
	}
	names = append(names, "nobody-"+r.Alnum(4), "")
	user := names[r.Intn(len(names))]
	pw := "wrong-" + r.Alnum(6)
	if ui := sc.Users[user]; ui != nil && ui.Password != "" && r.Chance(2, 3) {
		pw = ui.Password
	}
	if r.Chance(1, 10) {
		pw = ""
	}
	if r.Chance(1, 6) {
		// the (valid) password of ANOTHER user
		for _, u := range sc.Cfg.Users {
			if ui := sc.Users[u.Name]; ui != nil && ui.Password != "" && u.Name != user && r.Bool() {
				pw = ui.Password
				break
			}
		}
	}
	switch r.Intn(19) {
	case 18:
		// user names that are valid UTF-8 but not ASCII (and other non-ASCII octets)
		u8 := r.PickS("jos\u00e9", "m\u00fcller", "\u7528\u6237", "bad\xff\xfe")
		switch r.Intn(4) {
		case 0:
			rc := authorCmd(u8, "show", "version")
			rc.Pkts[0].Label = "author/non-ascii-user"
			return rc
		case 1:
			rc := acct(u8, 2, "task_id=9")
			rc.Pkts[0].Label = "acct/non-ascii-user"
			return rc
		case 2:
			rc := papLogin(u8, "pw", 1)
			rc.Pkts[0].Label = "authen/pap/non-ascii-user"
			return rc
		}
		rc := asciiLogin(u8, false, "pw", 0)
		rc.Name, rc.Kind = "ascii-non-ascii-user", "odd"
		rc.Pkts[1].Label = "authen/ascii/continue-non-ascii-user"
		return rc
	case 16:
		rc := asciiLogin(string(r.Printable(r.Pick(65400, 65500, 65531))), false, "pw", 0)
		rc.Name, rc.Kind = "ascii-64KiB-user", "odd"
		rc.Pkts[1].Label = "authen/ascii/continue-user-64KiB"
		rc.Pkts[2].Label = "authen/ascii/continue-password-after-64KiB-user"
		return rc
	case 17:
		rc := authorSession("ivan", "service="+r.PickS("badsvc", "longsvc", "utfsvc", "widesvc"), "protocol=ip")
		rc.Pkts[0].Label = "author/session-with-unrenderable-set-value"
		return rc
	case 0, 1:
		return asciiLogin(user, r.Bool(), pw, 0)
	case 2:
		return asciiLogin(user, r.Bool(), pw, 2+r.Intn(2))
	case 3, 4:
		return papLogin(user, pw, 1)
	case 5:
		return papLogin(user, pw, 0)
	case 6:
		return oddAuthen(r, user, pw)
	case 7:
		return authorCmd(user, r.PickS("show", "configure", "reload", "write", "*"), r.PickS("version", "terminal", "ip route 10.0.0.0", "<cr>", "x y"))
	case 8:
		return authorSession(user, r.PickS("service=shell", "service=ppp", "service*shell", "service=unknown"), r.PickS("cmd=", "cmd*", "protocol=ip", "protocol=lcp", "shell:roles*x"))
	case 9, 10:
		flags := r.Pick(2, 4, 8, 0x0a, r.Intn(256))
		return acct(user, flags, "task_id="+r.Alnum(6), "cmd=show %s 100%% "+r.Alnum(3))
	case 11:
		return continueToFreshSession()
	case 12:
		return startMidExchange(user)
	case 13:
		return wrongTypeBody(r, user)
	case 14:
		if r.Bool() {
			return garbageClear(r)
		}
		return garbageKeyed(r)
	}
	return maxSize(r, user)
}
