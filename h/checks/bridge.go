package checks

import (
	"bytes"
	"fmt"

	tq "github.com/facebookincubator/tacquito"
	"verif/h/rfc8907"
)

// The bridge maps between the generic reference values and tacquito's
// exported structs. It copies field by field by NAME; it contains no layout
// knowledge (orders, widths) at all.

var allLayouts = []string{rfc8907.AuthenStart, rfc8907.AuthenReply, rfc8907.AuthenContinue,
	rfc8907.AuthorRequest, rfc8907.AuthorReply, rfc8907.AcctRequest, rfc8907.AcctReply}

func newLib(layout string) tq.EncoderDecoder {
	switch layout {
	case rfc8907.AuthenStart:
		return &tq.AuthenStart{}
	case rfc8907.AuthenReply:
		return &tq.AuthenReply{}
	case rfc8907.AuthenContinue:
		return &tq.AuthenContinue{}
	case rfc8907.AuthorRequest:
		return &tq.AuthorRequest{}
	case rfc8907.AuthorReply:
		return &tq.AuthorReply{}
	case rfc8907.AcctRequest:
		return &tq.AcctRequest{}
	case rfc8907.AcctReply:
		return &tq.AcctReply{}
	}
	panic("unknown layout " + layout)
}

func libArgs(a [][]byte) tq.Args {
	if a == nil {
		return nil
	}
	out := make(tq.Args, 0, len(a))
	for _, x := range a {
		out = append(out, tq.Arg(x))
	}
	return out
}

func refArgs(a tq.Args) [][]byte {
	if len(a) == 0 {
		return nil
	}
	out := make([][]byte, 0, len(a))
	for _, x := range a {
		out = append(out, []byte(x))
	}
	return out
}

func toLib(v *rfc8907.Value) tq.EncoderDecoder {
	t := func(n string) string { return string(v.Texts[n]) }
	i := func(n string) int { return v.Ints[n] }
	switch v.Layout {
	case rfc8907.AuthenStart:
		return &tq.AuthenStart{Action: tq.AuthenAction(i("action")), PrivLvl: tq.PrivLvl(i("priv_lvl")), Type: tq.AuthenType(i("authen_type")),
			Service: tq.AuthenService(i("authen_service")), User: tq.AuthenUser(t("user")), Port: tq.AuthenPort(t("port")),
			RemAddr: tq.AuthenRemAddr(t("rem_addr")), Data: tq.AuthenData(t("data"))}
	case rfc8907.AuthenReply:
		return &tq.AuthenReply{Status: tq.AuthenStatus(i("status")), Flags: tq.AuthenReplyFlag(i("flags")),
			ServerMsg: tq.AuthenServerMsg(t("server_msg")), Data: tq.AuthenData(t("data"))}
	case rfc8907.AuthenContinue:
		return &tq.AuthenContinue{Flags: tq.AuthenContinueFlag(i("flags")), UserMessage: tq.AuthenUserMessage(t("user_msg")), Data: tq.AuthenData(t("data"))}
	case rfc8907.AuthorRequest:
		return &tq.AuthorRequest{Method: tq.AuthenMethod(i("authen_method")), PrivLvl: tq.PrivLvl(i("priv_lvl")), Type: tq.AuthenType(i("authen_type")),
			Service: tq.AuthenService(i("authen_service")), User: tq.AuthenUser(t("user")), Port: tq.AuthenPort(t("port")),
			RemAddr: tq.AuthenRemAddr(t("rem_addr")), Args: libArgs(v.Args)}
	case rfc8907.AuthorReply:
		return &tq.AuthorReply{Status: tq.AuthorStatus(i("status")), Args: libArgs(v.Args), ServerMsg: tq.AuthorServerMsg(t("server_msg")), Data: tq.AuthorData(t("data"))}
	case rfc8907.AcctRequest:
		return &tq.AcctRequest{Flags: tq.AcctRequestFlag(i("flags")), Method: tq.AuthenMethod(i("authen_method")), PrivLvl: tq.PrivLvl(i("priv_lvl")),
			Type: tq.AuthenType(i("authen_type")), Service: tq.AuthenService(i("authen_service")), User: tq.AuthenUser(t("user")),
			Port: tq.AuthenPort(t("port")), RemAddr: tq.AuthenRemAddr(t("rem_addr")), Args: libArgs(v.Args)}
	case rfc8907.AcctReply:
		return &tq.AcctReply{Status: tq.AcctReplyStatus(i("status")), ServerMsg: tq.AcctServerMsg(t("server_msg")), Data: tq.AcctData(t("data"))}
	}
	panic("unknown layout " + v.Layout)
}

func fromLib(ed tq.EncoderDecoder) *rfc8907.Value {
	switch x := ed.(type) {
	case *tq.AuthenStart:
		v := rfc8907.NewValue(rfc8907.AuthenStart)
		v.Ints["action"], v.Ints["priv_lvl"], v.Ints["authen_type"], v.Ints["authen_service"] = int(x.Action), int(x.PrivLvl), int(x.Type), int(x.Service)
		v.Texts["user"], v.Texts["port"], v.Texts["rem_addr"], v.Texts["data"] = []byte(x.User), []byte(x.Port), []byte(x.RemAddr), []byte(x.Data)
		return v
	case *tq.AuthenReply:
		v := rfc8907.NewValue(rfc8907.AuthenReply)
		v.Ints["status"], v.Ints["flags"] = int(x.Status), int(x.Flags)
		v.Texts["server_msg"], v.Texts["data"] = []byte(x.ServerMsg), []byte(x.Data)
		return v
	case *tq.AuthenContinue:
		v := rfc8907.NewValue(rfc8907.AuthenContinue)
		v.Ints["flags"] = int(x.Flags)
		v.Texts["user_msg"], v.Texts["data"] = []byte(x.UserMessage), []byte(x.Data)
		return v
	case *tq.AuthorRequest:
		v := rfc8907.NewValue(rfc8907.AuthorRequest)
		v.Ints["authen_method"], v.Ints["priv_lvl"], v.Ints["authen_type"], v.Ints["authen_service"] = int(x.Method), int(x.PrivLvl), int(x.Type), int(x.Service)
		v.Texts["user"], v.Texts["port"], v.Texts["rem_addr"] = []byte(x.User), []byte(x.Port), []byte(x.RemAddr)
		v.Args = refArgs(x.Args)
		return v
	case *tq.AuthorReply:
		v := rfc8907.NewValue(rfc8907.AuthorReply)
		v.Ints["status"] = int(x.Status)
		v.Texts["server_msg"], v.Texts["data"] = []byte(x.ServerMsg), []byte(x.Data)
		v.Args = refArgs(x.Args)
		return v
	case *tq.AcctRequest:
		v := rfc8907.NewValue(rfc8907.AcctRequest)
		v.Ints["flags"], v.Ints["authen_method"], v.Ints["priv_lvl"], v.Ints["authen_type"], v.Ints["authen_service"] = int(x.Flags), int(x.Method), int(x.PrivLvl), int(x.Type), int(x.Service)
		v.Texts["user"], v.Texts["port"], v.Texts["rem_addr"] = []byte(x.User), []byte(x.Port), []byte(x.RemAddr)
		v.Args = refArgs(x.Args)
		return v
	case *tq.AcctReply:
		v := rfc8907.NewValue(rfc8907.AcctReply)
		v.Ints["status"] = int(x.Status)
		v.Texts["server_msg"], v.Texts["data"] = []byte(x.ServerMsg), []byte(x.Data)
		return v
	}
	panic(fmt.Sprintf("unknown type %T", ed))
}

// diffValues names the first field in which two values differ ("" if equal).
// nil and empty are the same value.
func diffValues(a, b *rfc8907.Value) string {
	if a.Layout != b.Layout {
		return "layout"
	}
	seen := map[string]bool{}
	for _, e := range rfc8907.Layouts[a.Layout] {
		if seen[e.Name] {
			continue
		}
		seen[e.Name] = true
		switch e.Kind {
		case rfc8907.U8:
			if a.Ints[e.Name] != b.Ints[e.Name] {
				return e.Name
			}
		case rfc8907.Len8, rfc8907.Len16, rfc8907.Text:
			if !bytes.Equal(a.Texts[e.Name], b.Texts[e.Name]) {
				return e.Name
			}
		case rfc8907.Args:
			if len(a.Args) != len(b.Args) {
				return "arg_cnt"
			}
			for i := range a.Args {
				if !bytes.Equal(a.Args[i], b.Args[i]) {
					return "args"
				}
			}
		}
	}
	return ""
}

// elemAt names the layout element that covers offset off of an encoding of v.
func elemAt(v *rfc8907.Value, off int) string {
	pos := 0
	for _, e := range rfc8907.Layouts[v.Layout] {
		n := 0
		switch e.Kind {
		case rfc8907.U8, rfc8907.Len8, rfc8907.ArgCnt:
			n = 1
		case rfc8907.Len16:
			n = 2
		case rfc8907.ArgLens:
			n = len(v.Args)
		case rfc8907.Text:
			n = len(v.Texts[e.Name])
		case rfc8907.Args:
			for _, a := range v.Args {
				n += len(a)
			}
		}
		if off < pos+n {
			k := e.Name
			switch e.Kind {
			case rfc8907.Len8, rfc8907.Len16:
				k += "_len"
			}
			return k
		}
		pos += n
	}
	return "beyond-end"
}

func firstDiff(a, b []byte) int {
	n := len(a)
	if len(b) < n {
		n = len(b)
	}
	for i := 0; i < n; i++ {
		if a[i] != b[i] {
			return i
		}
	}
	if len(a) != len(b) {
		return n
	}
	return -1
}

func hexs(b []byte) string {
	if len(b) > 96 {
		return fmt.Sprintf("%x…(%d bytes)", b[:96], len(b))
	}
	return fmt.Sprintf("%x", b)
}

func lenBucket(n int) string {
	switch {
	case n == 0:
		return "0"
	case n == 1:
		return "1"
	case n < 16:
		return "2-15"
	case n < 255:
		return "16-254"
	case n == 255:
		return "255"
	case n == 256:
		return "256"
	case n < 65535:
		return "257-65534"
	case n == 65535:
		return "65535"
	case n == 65536:
		return "65536"
	}
	return ">65536"
}

// shape is the coverage class of a value: layout plus bucketed lengths.
func shape(v *rfc8907.Value) string {
	s := v.Layout
	seen := map[string]bool{}
	for _, e := range rfc8907.Layouts[v.Layout] {
		if e.Kind == rfc8907.Text && !seen[e.Name] {
			seen[e.Name] = true
			s += "/" + e.Name + ":" + lenBucket(len(v.Texts[e.Name]))
		}
	}
	if rfc8907.HasArgs(v.Layout) {
		mx := 0
		for _, a := range v.Args {
			if len(a) > mx {
				mx = len(a)
			}
		}
		s += fmt.Sprintf("/args:%s,max:%s", lenBucket(len(v.Args)), lenBucket(mx))
	}
	return s
}

func describe(v *rfc8907.Value) map[string]interface{} {
	m := map[string]interface{}{"layout": v.Layout, "ints": v.Ints}
	tl := map[string]int{}
	for k, t := range v.Texts {
		tl[k] = len(t)
	}
	m["text_lengths"] = tl
	al := []int{}
	for i, a := range v.Args {
		if i < 8 {
			al = append(al, len(a))
		}
	}
	m["arg_count"] = len(v.Args)
	m["first_arg_lengths"] = al
	return m
}
