package checks

import (
	"context"
	"encoding/json"
	"fmt"
	"net"
	"os"
	"path/filepath"
	"reflect"
	"sort"
	"strings"
	"time"

	"github.com/facebookincubator/tacquito/cmds/server/config"
	fswatch "github.com/facebookincubator/tacquito/cmds/server/loader/fsnotify"
	jsonloader "github.com/facebookincubator/tacquito/cmds/server/loader/json"
	yamlloader "github.com/facebookincubator/tacquito/cmds/server/loader/yaml"
	"gopkg.in/yaml.v3"
	"verif/h/gen"
	"verif/h/mon"
	"verif/h/refsrv"
	"verif/h/rfc8907"
	"verif/h/tap"
)

// C16 — reloading a configuration file is equivalent to starting with it
// (differential monitor over load histories; the oracle is a fresh loader).

func init() {
	mon.Register(&mon.Check{
		ID:        "C16",
		Batches:   func(tier string) int { return 16 },
		Run:       runC16,
		Technique: "differential runtime monitor over load histories: every document of a generated history is fed to ONE long-lived yaml/json loader object (what Load and the file watcher call) and to a freshly constructed one; outcomes and published values must agree, earlier published values are re-hashed after every later load, failed loads must publish nothing; an end-to-end pass compares lookups and AAA outcomes of a reloaded reference server with a server started on the last good document alone",
		Rule: "documents come from a configuration grammar rendered to YAML and JSON and are then edited: optional top-level keys dropped, user/secret lists shrunk and reordered, per-user commands/services/groups/authenticator/accounter removed, option maps changed; interleaved with unparsable documents, type errors and documents failing the minimum-content check; histories of length 2-6. " +
			"A class is (format, sequence of edit kinds of the history's last 3 steps, outcome); distinct_nontrivial counts classes",
		Assumptions: []string{"semantic equality: nil and empty collections are the same value",
			"thorough tier drives the real fsnotify watcher on a temporary file for one short history per batch; a change that produces no publication within 4 s is counted as skipped (inotify timing), never a verdict"},
		MinClasses: func(tier string) int { return 60 },
	})
}

// c16FileTime is the modification time every configuration file of the file-based histories gets.
var c16FileTime = time.Unix(1700000000, 0)

type docLoader interface {
	Unmarshal([]byte) error
	Load(path string) error
	Config() chan config.ServerConfig
}

func newDocLoader(format string) docLoader {
	if format == "json" {
		return jsonloader.New()
	}
	return yamlloader.New()
}

// canon renders a value with nulls and empty collections removed and keys sorted.
func canon(v interface{}) string {
	raw, _ := json.Marshal(v)
	var x interface{}
	json.Unmarshal(raw, &x)
	x = prune(x)
	out, _ := json.Marshal(x)
	return string(out)
}

func prune(x interface{}) interface{} {
	switch t := x.(type) {
	case map[string]interface{}:
		for k, v := range t {
			p := prune(v)
			if p == nil {
				delete(t, k)
			} else {
				t[k] = p
			}
		}
		if len(t) == 0 {
			return nil
		}
		return t
	case []interface{}:
		var out []interface{}
		for _, v := range t {
			out = append(out, prune(v)) // positions matter inside lists
		}
		if len(out) == 0 {
			return nil
		}
		return out
	case string:
		if t == "" {
			return nil
		}
	case bool:
		if !t {
			return nil
		}
	case float64:
		if t == 0 {
			return nil
		}
	}
	return x
}

// diffTop names the top-level key (and user field) in which two configurations differ.
func diffTop(a, b config.ServerConfig) string {
	switch {
	case canon(a.PrefixDeny) != canon(b.PrefixDeny):
		return "prefix_deny"
	case canon(a.PrefixAllow) != canon(b.PrefixAllow):
		return "prefix_allow"
	case canon(a.Secrets) != canon(b.Secrets):
		return "secrets"
	case len(a.Users) != len(b.Users):
		return "users/count"
	}
	for i := range a.Users {
		ua, ub := a.Users[i], b.Users[i]
		switch {
		case ua.Name != ub.Name:
			return "users/name"
		case canon(ua.Commands) != canon(ub.Commands):
			return "users/commands"
		case canon(ua.Services) != canon(ub.Services):
			return "users/services"
		case canon(ua.Groups) != canon(ub.Groups):
			return "users/groups"
		case canon(ua.Authenticator) != canon(ub.Authenticator):
			return "users/authenticator"
		case canon(ua.Accounter) != canon(ub.Accounter):
			return "users/accounter"
		case canon(ua.Scopes) != canon(ub.Scopes):
			return "users/scopes"
		}
	}
	return "other"
}

type c16Doc struct {
	Edit  string
	Cfg   *config.ServerConfig // nil for hand-written invalid documents
	Raw   map[string][]byte    // format -> bytes
	Valid bool
}

func c16Base(r *gen.R) config.ServerConfig {
	var c config.ServerConfig
	ns := 1 + r.Intn(3)
	// the document lists the scopes in an order of its own (not sorted by name), and the second one
	// overlaps the first: the order of the list decides who serves 10.0.x.y
	names := []string{"s0"}
	if ns >= 2 {
		names = []string{"s1", "s0", "s2"}[:ns]
	}
	for k := 0; k < ns; k++ {
		prefix := fmt.Sprintf("10.%d.0.0/16", k)
		if k == 1 {
			prefix = "10.0.0.0/8"
		}
		c.Secrets = append(c.Secrets, refsrv.Scope(names[k], fmt.Sprintf("key%d", k), prefix))
	}
	nu := 2 + r.Intn(5)
	grp := config.Group{Name: "ops", Commands: []config.Command{{Name: "show", Match: []string{"version"}, Action: config.PERMIT}}, Authenticator: refsrv.Bcrypt("grp-pw"), Accounter: refsrv.FileAccounter()}
	for i := 0; i < nu; i++ {
		u := config.User{Name: fmt.Sprintf("user%d", i), Scopes: []string{fmt.Sprintf("s%d", r.Intn(ns))}}
		if r.Bool() {
			u.Scopes = append(u.Scopes, fmt.Sprintf("s%d", r.Intn(ns)))
		}
		if r.Chance(2, 3) {
			u.Commands = []config.Command{{Name: r.PickS("*", "show", "configure"), Action: config.Action(r.Pick(1, 2, 2))}}
			if r.Bool() {
				u.Commands = append(u.Commands, config.Command{Name: "reload", Action: config.DENY, Match: []string{"now"}})
			}
		}
		if r.Chance(1, 2) {
			u.Services = []config.Service{{Name: "shell", SetValues: []config.Value{{Name: "priv-lvl", Values: []string{fmt.Sprint(1 + r.Intn(15))}}}}}
		}
		if r.Chance(1, 2) {
			u.Groups = []config.Group{grp}
		}
		if r.Chance(2, 3) {
			u.Authenticator = refsrv.Bcrypt(fmt.Sprintf("pw-user%d", i))
			if r.Chance(1, 4) {
				u.Authenticator.Options["group"] = "g"
				u.Authenticator.Options["key"] = "k"
			}
		}
		if r.Chance(1, 2) {
			u.Accounter = refsrv.FileAccounter()
			if r.Bool() {
				u.Accounter.Options = map[string]string{"path": "/x"}
			}
		}
		c.Users = append(c.Users, u)
	}
	if r.Chance(2, 3) {
		c.PrefixDeny = []string{"10.0.9.0/24", "10.1.9.0/24"}[:1+r.Intn(2)]
	}
	if r.Chance(1, 3) {
		c.PrefixAllow = []string{"10.0.0.0/8"}
	}
	return c
}

func deepCopyCfg(c config.ServerConfig) config.ServerConfig {
	raw, _ := json.Marshal(c)
	var out config.ServerConfig
	json.Unmarshal(raw, &out)
	return out
}

var c16Edits = []string{"drop-prefix_deny", "drop-prefix_allow", "remove-user", "remove-first-user", "reorder-users", "remove-commands", "remove-services", "remove-groups",
	"remove-authenticator", "remove-accounter", "shrink-options", "remove-secret", "reorder-secrets", "add-user", "change-rule", "same-again",
	"move-deny-to-allow", "move-allow-to-deny", "swap-deny-allow", "shift-deny-allow-boundary", "add-deny",
	"orphan-users", "unregistered-provider-type", "empty-prefixes", "shrink-prefixes", "unregistered-handler-type",
	"flip-action", "change-key-character",
	"invalid-syntax", "invalid-type", "no-users", "no-secrets", "empty-document"}

func c16Edit(r *gen.R, prev config.ServerConfig, edit string) (cfg *config.ServerConfig, raw map[string][]byte) {
	c := deepCopyCfg(prev)
	pickUser := func() int {
		if len(c.Users) == 0 {
			return -1
		}
		return r.Intn(len(c.Users))
	}
	switch edit {
	case "move-deny-to-allow":
		c.PrefixAllow = append(c.PrefixDeny, c.PrefixAllow...)
		c.PrefixDeny = nil
	case "move-allow-to-deny":
		c.PrefixDeny = append(c.PrefixDeny, c.PrefixAllow...)
		c.PrefixAllow = nil
	case "swap-deny-allow":
		c.PrefixDeny, c.PrefixAllow = c.PrefixAllow, c.PrefixDeny
	case "shift-deny-allow-boundary":
		// same concatenation of the two lists, another split point
		all := append(append([]string{}, c.PrefixDeny...), c.PrefixAllow...)
		if len(all) > 0 {
			k := r.Intn(len(all) + 1)
			c.PrefixDeny, c.PrefixAllow = append([]string{}, all[:k]...), append([]string{}, all[k:]...)
		}
	case "add-deny":
		c.PrefixDeny = append(c.PrefixDeny, r.PickS("10.0.0.0/24", "10.1.0.0/24", "10.0.9.0/24", "10.2.0.0/16"))
	case "orphan-users":
		// passes the minimum-content check, but no user belongs to any configured scope
		for i := range c.Users {
			c.Users[i].Scopes = []string{"nowhere"}
		}
	case "unregistered-provider-type":
		for i := range c.Secrets {
			c.Secrets[i].Type = config.DNS
		}
	case "unregistered-handler-type":
		for i := range c.Secrets {
			c.Secrets[i].Handler.Type = config.SPAN
		}
	case "empty-prefixes":
		for i := range c.Secrets {
			c.Secrets[i].Options = map[string]string{"prefixes": "[]"}
		}
	case "shrink-prefixes":
		for i := range c.Secrets {
			c.Secrets[i].Options = map[string]string{"prefixes": fmt.Sprintf("[\"10.%d.0.0/24\"]", i)}
		}
	case "drop-prefix_deny":
		c.PrefixDeny = nil
	case "drop-prefix_allow":
		c.PrefixAllow = nil
	case "remove-user":
		if len(c.Users) > 1 {
			i := pickUser()
			c.Users = append(c.Users[:i], c.Users[i+1:]...)
		}
	case "remove-first-user":
		if len(c.Users) > 1 {
			c.Users = c.Users[1:]
		}
	case "reorder-users":
		p := r.Perm(len(c.Users))
		us := make([]config.User, len(c.Users))
		for i, j := range p {
			us[i] = c.Users[j]
		}
		c.Users = us
	case "remove-commands":
		if i := pickUser(); i >= 0 {
			c.Users[i].Commands = nil
		}
	case "remove-services":
		if i := pickUser(); i >= 0 {
			c.Users[i].Services = nil
		}
	case "remove-groups":
		if i := pickUser(); i >= 0 {
			c.Users[i].Groups = nil
		}
	case "remove-authenticator":
		if i := pickUser(); i >= 0 {
			c.Users[i].Authenticator = nil
		}
	case "remove-accounter":
		if i := pickUser(); i >= 0 {
			c.Users[i].Accounter = nil
		}
	case "shrink-options":
		for i := range c.Users {
			if a := c.Users[i].Authenticator; a != nil && len(a.Options) > 1 {
				delete(a.Options, "group")
				delete(a.Options, "key")
			}
			if a := c.Users[i].Accounter; a != nil {
				a.Options = nil
			}
		}
	case "remove-secret":
		if len(c.Secrets) > 1 {
			c.Secrets = c.Secrets[:len(c.Secrets)-1]
		}
	case "reorder-secrets":
		if len(c.Secrets) > 1 {
			c.Secrets[0], c.Secrets[len(c.Secrets)-1] = c.Secrets[len(c.Secrets)-1], c.Secrets[0]
		}
	case "add-user":
		c.Users = append([]config.User{{Name: "newcomer" + r.Alnum(2), Scopes: []string{"s0"}}}, c.Users...)
	case "change-rule":
		if i := pickUser(); i >= 0 {
			c.Users[i].Commands = []config.Command{{Name: "show", Action: config.DENY}}
		}
	case "flip-action":
		// same document length: permit <-> deny on one command of one user
		if i := pickUser(); i >= 0 && len(c.Users[i].Commands) > 0 {
			k := r.Intn(len(c.Users[i].Commands))
			if c.Users[i].Commands[k].Action == config.PERMIT {
				c.Users[i].Commands[k].Action = config.DENY
			} else {
				c.Users[i].Commands[k].Action = config.PERMIT
			}
		}
	case "change-key-character":
		// same document length: one character of a scope's key name changes
		if len(c.Secrets) > 0 {
			k := r.Intn(len(c.Secrets))
			key := []byte(c.Secrets[k].Secret.Key)
			if len(key) > 0 {
				key[len(key)-1] = "xyz"[r.Intn(3)]
				c.Secrets[k].Secret.Key = string(key)
			}
		}
	case "same-again":
	case "invalid-syntax":
		return nil, map[string][]byte{"yaml": []byte("users: [unclosed\n  - {{{"), "json": []byte(`{"users": [`)}
	case "invalid-type":
		// a type error after some keys have already been decoded
		return nil, map[string][]byte{
			"yaml": []byte("prefix_deny: [\"10.66.0.0/16\"]\nusers:\n  - name: intruder\n    scopes: [s0]\n    commands:\n      - name: \"*\"\n        action: 2\nsecrets: 5\n"),
			"json": []byte(`{"prefix_deny": ["10.66.0.0/16"], "users": [{"name": "intruder", "scopes": ["s0"], "commands": [{"name": "*", "action": 2}]}], "secrets": 5}`)}
	case "no-users":
		c.Users = nil
	case "no-secrets":
		c.Secrets = nil
	case "empty-document":
		return nil, map[string][]byte{"yaml": []byte("\n"), "json": []byte(`{}`)}
	}
	y, _ := yaml.Marshal(c)
	j, _ := json.Marshal(c)
	return &c, map[string][]byte{"yaml": y, "json": j}
}

func runC16(b *mon.B) {
	r := gen.New(uint64(b.Seed), 0xC16, uint64(b.Index))
	caseNo := 0
	if b.Thorough() && b.Only < 0 {
		c16Watcher(b, r.Fork(99))
	}
	fileDir, _ := os.MkdirTemp("", "verif-c16-")
	if fileDir != "" {
		defer os.RemoveAll(fileDir)
	}
	nHist := b.N(160, 19000)
	for hi := 0; hi < nHist; hi++ {
		caseNo++
		format := []string{"yaml", "json"}[hi%2]
		base := c16Base(r)
		n := 2 + r.Intn(5)
		docs := []c16Doc{}
		cur := base
		by, _ := yaml.Marshal(base)
		bj, _ := json.Marshal(base)
		docs = append(docs, c16Doc{Edit: "initial", Cfg: &base, Raw: map[string][]byte{"yaml": by, "json": bj}})
		for i := 1; i < n; i++ {
			e := c16Edits[r.Intn(len(c16Edits))]
			cfg, raw := c16Edit(r, cur, e)
			docs = append(docs, c16Doc{Edit: e, Cfg: cfg, Raw: raw})
			if cfg != nil && len(cfg.Users) > 0 && len(cfg.Secrets) > 0 {
				cur = *cfg
			}
		}
		if !b.Want(caseNo) {
			continue
		}
		b.Eval(1)
		var edits []string
		for _, d := range docs {
			edits = append(edits, d.Edit)
		}
		tail := edits
		if len(tail) > 3 {
			tail = tail[len(tail)-3:]
		}
		lo := newDocLoader(format)
		// every third history reaches the long-lived loader the way the reference server's file
		// watcher feeds it: Load(path) of one file that is rewritten in place. The file keeps its
		// modification time (deployment tools that preserve timestamps, coarse file-system
		// clocks): what is loaded must depend on the content only.
		viaFile := caseNo%3 == 1 && fileDir != ""
		load := func(doc []byte) error {
			if !viaFile {
				return lo.Unmarshal(doc)
			}
			path := filepath.Join(fileDir, "tacquito."+format)
			if err := os.WriteFile(path, doc, 0644); err != nil {
				viaFile = false
				return lo.Unmarshal(doc)
			}
			os.Chtimes(path, c16FileTime, c16FileTime)
			return lo.Load(path)
		}
		if viaFile {
			b.Class("history-via-file/%s", format)
		}
		type pub struct {
			val  config.ServerConfig
			snap string
			step int
			deep config.ServerConfig
		}
		var published []pub
		outcome := "ok"
		bad := false
		for step, d := range docs {
			doc := d.Raw[format]
			err := load(doc)
			fresh := newDocLoader(format)
			ferr := fresh.Unmarshal(doc)
			wit := func() map[string]interface{} {
				var ds []string
				for i := 0; i <= step; i++ {
					ds = append(ds, clip(string(docs[i].Raw[format])))
				}
				return map[string]interface{}{"format": format, "edits": edits[:step+1], "documents": ds}
			}
			if (err == nil) != (ferr == nil) {
				which := "reload-accepts-what-fresh-rejects"
				if err != nil {
					which = "reload-rejects-what-fresh-accepts"
				}
				b.Violate(caseNo, fmt.Sprintf("C16/%s/%s/%s", format, which, d.Edit),
					fmt.Sprintf("%s loader, step %d (%s): long-lived loader says %v, a fresh loader says %v for the same document", format, step, d.Edit, err, ferr), wit())
				bad = true
				break
			}
			if err != nil {
				outcome = "load-error"
				select {
				case v := <-lo.Config():
					b.Violate(caseNo, fmt.Sprintf("C16/%s/published-after-failed-load", format), fmt.Sprintf("a failed load published a configuration with %d users", len(v.Users)), wit())
					bad = true
				default:
				}
			} else {
				outcome = "ok"
				// both loaders publish before they return (buffered channel of one)
				var got, want config.ServerConfig
				select {
				case got = <-lo.Config():
				default:
					b.Violate(caseNo, fmt.Sprintf("C16/%s/accepted-load-never-published", format), fmt.Sprintf("%s loader, step %d (%s): the load returned nil but no configuration was published; a fresh loader publishes one for the same document", format, step, d.Edit), wit())
					bad = true
				}
				select {
				case want = <-fresh.Config():
				default:
					bad = true
				}
				if bad {
					break
				}
				if canon(got) != canon(want) {
					w := wit()
					w["reloaded"] = clip(canon(got))
					w["fresh"] = clip(canon(want))
					b.Violate(caseNo, fmt.Sprintf("C16/%s/reload-differs-from-fresh/%s", format, diffTop(got, want)),
						fmt.Sprintf("%s loader, step %d (%s): the configuration published after reloading differs from what a fresh loader publishes for the same document (%s)", format, step, d.Edit, diffTop(got, want)), w)
					bad = true
				}
				published = append(published, pub{val: got, snap: canon(got), step: step, deep: deepCopyCfg(got)})
			}
			if bad {
				break
			}
			// a configuration already published is not modified by later loads
			for _, p := range published[:maxInt(0, len(published)-1)] {
				if canon(p.val) != p.snap || !reflect.DeepEqual(pruneCfg(p.val), pruneCfg(p.deep)) {
					w := wit()
					w["published_at_step"] = p.step
					w["was"] = clip(p.snap)
					w["is_now"] = clip(canon(p.val))
					b.Violate(caseNo, fmt.Sprintf("C16/%s/published-config-modified-by-later-load", format),
						fmt.Sprintf("%s loader: the configuration published at step %d changed when step %d (%s) was loaded", format, p.step, step, d.Edit), w)
					bad = true
					break
				}
			}
			if bad {
				break
			}
		}
		// ---- burst: a further load arrives while the previous one has not been consumed yet
		if !bad && hi%4 == 0 {
			var valid []c16Doc
			for _, d := range docs {
				if d.Cfg != nil && len(d.Cfg.Users) > 0 && len(d.Cfg.Secrets) > 0 {
					valid = append(valid, d)
				}
			}
			if len(valid) >= 2 {
				a, z := valid[0], valid[len(valid)-1]
				bl := newDocLoader(format)
				if err := bl.Unmarshal(a.Raw[format]); err == nil {
					done := make(chan error, 1)
					go func() { done <- bl.Unmarshal(z.Raw[format]) }() // may block until the slot is free
					time.Sleep(200 * time.Microsecond)
					var got []config.ServerConfig
					got = append(got, <-bl.Config())
					var lerr error
					select {
					case lerr = <-done:
					case <-time.After(10 * time.Second):
						lerr = fmt.Errorf("second load still blocked after its predecessor was consumed")
					}
					select {
					case v := <-bl.Config():
						got = append(got, v)
					case <-time.After(50 * time.Millisecond):
					}
					fresh := newDocLoader(format)
					fresh.Unmarshal(z.Raw[format])
					want := <-fresh.Config()
					b.Count("burst_loads", 1)
					if lerr == nil && (len(got) < 2 || canon(got[len(got)-1]) != canon(want)) {
						b.Violate(caseNo, fmt.Sprintf("C16/%s/accepted-load-never-published", format),
							fmt.Sprintf("%s loader: a load that arrived while its predecessor was still waiting to be consumed returned success, but its configuration was never published (%d configurations came out, the last is not the newest document)", format, len(got)),
							map[string]interface{}{"format": format, "published": len(got)})
					}
				}
			}
		}
		b.Class("%s/%s/%s", format, strings.Join(tail, ">"), outcome)
		if !bad {
			b.Count("histories_equivalent_to_fresh", 1)
		}
		if hi%499 == 0 {
			b.Sample("history", map[string]interface{}{"format": format, "edits": edits})
		}
		// ---- the same history through the real Loader (lookups only), every history
		if !bad {
			c16LoaderLevel(b, caseNo, format, docs, edits)
		}
		// ---- end to end (lookups + AAA outcomes) on a sample of histories
		if hi%8 == 0 && !bad {
			c16EndToEnd(b, r, caseNo, format, docs, edits)
		}
	}
}

// c16Watcher drives the real fsnotify watcher on a temporary file (thorough tier,
// one history per batch): the watcher calls Load on the same loader object for every
// change. inotify timing is outside our control: a change that produces no
// publication within 4 s is counted as "skipped", never a verdict.
func c16Watcher(b *mon.B, r *gen.R) {
	dir, err := os.MkdirTemp("", "c16watch")
	if err != nil {
		return
	}
	defer os.RemoveAll(dir)
	path := filepath.Join(dir, "tacquito.yaml")
	base := c16Base(r)
	doc0, _ := yaml.Marshal(base)
	if os.WriteFile(path, doc0, 0644) != nil {
		return
	}
	ctx, cancel := context.WithCancel(context.Background())
	defer cancel()
	lo := yamlloader.New()
	w := fswatch.New(ctx, lo, tap.NewLogger(false))
	if err := w.Load(path); err != nil {
		b.Inconclusive("fsnotify watcher could not be started: %v", err)
		return
	}
	<-w.Config()
	cur := base
	for step := 0; step < 5; step++ {
		e := c16Edits[r.Intn(len(c16Edits))]
		cfg, raw := c16Edit(r, cur, e)
		doc := raw["yaml"]
		time.Sleep(150 * time.Millisecond)
		if os.WriteFile(path, doc, 0644) != nil {
			return
		}
		fresh := yamlloader.New()
		ferr := fresh.Unmarshal(doc)
		b.Eval(1)
		b.Class("watcher/%s/fresh-accepts=%v", e, ferr == nil)
		select {
		case got := <-w.Config():
			if ferr != nil {
				b.Violate(-1, "C16/watcher/published-a-document-a-fresh-loader-rejects", fmt.Sprintf("file watcher: after edit %s a configuration was published although a fresh loader rejects the file: %v", e, ferr), nil)
				return
			}
			want := <-fresh.Config()
			if canon(got) != canon(want) {
				b.Violate(-1, "C16/watcher/reload-differs-from-fresh/"+diffTop(got, want), fmt.Sprintf("file watcher: configuration published after edit %s differs from a fresh load of the same file (%s)", e, diffTop(got, want)), nil)
				return
			}
			b.Count("watcher_reloads_equal_to_fresh", 1)
			if cfg != nil {
				cur = *cfg
			}
		case <-time.After(4 * time.Second):
			if ferr == nil {
				b.Count("watcher_changes_skipped_no_event", 1)
			} else {
				b.Count("watcher_invalid_documents_not_published", 1)
			}
		}
	}
}

func maxInt(a, b int) int {
	if a > b {
		return a
	}
	return b
}

func pruneCfg(c config.ServerConfig) string { return canon(c) }

var c16Probes = []string{"10.0.0.1", "10.0.0.200", "10.0.9.1", "10.1.0.1", "10.1.9.1", "10.2.0.1", "10.2.9.9", "10.66.0.1", "192.0.2.1", "::1"}

// c16LoaderLevel feeds the history to the yaml/json loader object behind a real
// Loader and compares Loader.Get on probe addresses with a Loader that only ever
// saw the last good document.
func c16LoaderLevel(b *mon.B, caseNo int, format string, docs []c16Doc, edits []string) {
	opt := refsrv.Options{ViaYAML: format == "yaml", ViaJSON: format == "json", NoServe: true}
	rel, err := refsrv.Start(*docs[0].Cfg, opt)
	if err != nil {
		return
	}
	defer rel.Close()
	lastGood := docs[0].Cfg
	for _, d := range docs[1:] {
		if err := rel.PublishDoc(d.Raw[format]); err == nil && d.Cfg != nil {
			lastGood = d.Cfg
		}
	}
	fresh, err := refsrv.Start(*lastGood, opt)
	if err != nil {
		return
	}
	defer fresh.Close()
	b.Count("loader_level_histories", 1)
	look := func(ref *refsrv.Ref, a string) string {
		sec, h, err := ref.Loader.Get(context.Background(), &net.TCPAddr{IP: net.ParseIP(a), Port: 9})
		if err != nil || h == nil || sec == nil {
			return "refused"
		}
		return "key=" + string(sec)
	}
	for _, a := range c16Probes {
		g, w := look(rel, a), look(fresh, a)
		b.Count("loader_level_lookups_compared", 1)
		if g != w {
			b.Violate(caseNo, fmt.Sprintf("C16/%s/loader-lookup-differs-after-reload", format),
				fmt.Sprintf("%s: after the load history %v a lookup of %s gives %q; a loader started on the last good document alone gives %q", format, edits, a, g, w),
				map[string]interface{}{"format": format, "edits": edits, "address": a, "reloaded": g, "fresh": w,
					"last_good_deny": docsLast(docs).PrefixDeny, "last_good_allow": docsLast(docs).PrefixAllow})
			return
		}
	}
}

func docsLast(docs []c16Doc) config.ServerConfig {
	var last config.ServerConfig
	for _, d := range docs {
		if d.Cfg != nil && len(d.Cfg.Users) > 0 && len(d.Cfg.Secrets) > 0 {
			last = *d.Cfg
		}
	}
	return last
}

// c16EndToEnd: the same history through Loader + lookups/AAA, compared with a
// server started on the last good document alone.
func c16EndToEnd(b *mon.B, r *gen.R, caseNo int, format string, docs []c16Doc, edits []string) {
	opt := refsrv.Options{ViaYAML: format == "yaml", ViaJSON: format == "json", NoServe: false}
	var lastGood *config.ServerConfig
	rel, err := refsrv.Start(*docs[0].Cfg, opt)
	if err != nil {
		return
	}
	defer rel.Close()
	rel.Net.SetKeepLog(false)
	lastGood = docs[0].Cfg
	// in half of these histories the long-lived server also carries traffic between the loads (the
	// same requests that are compared at the end): whatever it remembers of answers given under an
	// earlier configuration must not survive the reload
	trafficBetween := (caseNo/3)%2 == 0
	// probes: lookups
	users := map[string]bool{"intruder": true}
	for _, d := range docs {
		if d.Cfg != nil {
			for _, u := range d.Cfg.Users {
				users[u.Name] = true
			}
		}
	}
	var names []string
	for n := range users {
		names = append(names, n)
	}
	sort.Strings(names)
	addrs := []string{"10.0.0.1", "10.0.9.1", "10.1.0.1", "10.1.9.1", "10.2.0.1", "10.66.0.1", "192.0.2.1"}
	observe := func(ref *refsrv.Ref) []string {
		var out []string
		for _, a := range addrs {
			sec, h, err := ref.Loader.Get(context.Background(), &net.TCPAddr{IP: net.ParseIP(a), Port: 5})
			out = append(out, fmt.Sprintf("lookup %s -> key=%q admitted=%v", a, sec, err == nil && h != nil))
			if err != nil || h == nil || sec == nil {
				continue
			}
			ip := net.ParseIP(a).To4()
			rc := newRefConn(ref, int(ip[1])<<16|int(ip[2])<<8|int(ip[3]), sec)
			sid := uint32(1)
			for _, n := range names {
				for _, pw := range []string{"pw-" + n, "grp-pw"} {
					sid++
					res := rc.send(rfc8907.Header{Major: 0xc, Minor: 1, Type: 1, Seq: 1, Session: sid}, bAuthenStart(1, 1, 2, 1, n, "p", "r", pw), true)
					st := -1
					if len(res.Replies) == 1 {
						st = res.Replies[0].status()
					}
					out = append(out, fmt.Sprintf("%s pap %s/%s -> %d", a, n, pw, st))
				}
				for _, cmd := range [][]string{{"show", "version"}, {"reload", "now"}, {"configure", "terminal"}} {
					sid++
					res := rc.send(rfc8907.Header{Major: 0xc, Type: 2, Seq: 1, Session: sid}, bAuthorRequest(6, 1, 1, 1, n, "p", "r", "service=shell", "cmd="+cmd[0], "cmd-arg="+cmd[1]), true)
					st := -1
					if len(res.Replies) == 1 {
						st = res.Replies[0].status()
					}
					out = append(out, fmt.Sprintf("%s author %s %s -> %#x", a, n, cmd[0], st))
				}
				sid++
				res := rc.send(rfc8907.Header{Major: 0xc, Type: 2, Seq: 1, Session: sid}, bAuthorRequest(6, 1, 1, 1, n, "p", "r", "service=shell", "cmd="), true)
				if len(res.Replies) == 1 && res.Replies[0].Value != nil {
					var as []string
					for _, x := range res.Replies[0].Value.Args {
						as = append(as, string(x))
					}
					out = append(out, fmt.Sprintf("%s session %s -> %#x %q", a, n, res.Replies[0].status(), as))
				}
				sid++
				res = rc.send(rfc8907.Header{Major: 0xc, Type: 3, Seq: 1, Session: sid}, bAcctRequest(2, 6, 1, 1, 1, n, "p", "r", "task_id=1"), true)
				if len(res.Replies) == 1 {
					out = append(out, fmt.Sprintf("%s acct %s -> %d", a, n, res.Replies[0].status()))
				}
			}
			rc.c.EOF()
		}
		return out
	}
	for _, d := range docs[1:] {
		if trafficBetween {
			observe(rel)
			b.Count("end_to_end_traffic_rounds_between_loads", 1)
		}
		if err := rel.PublishDoc(d.Raw[format]); err == nil && d.Cfg != nil {
			lastGood = d.Cfg
		}
	}
	fresh, err := refsrv.Start(*lastGood, opt)
	if err != nil {
		b.Inconclusive("fresh server did not start on the last good document: %v", err)
		return
	}
	defer fresh.Close()
	fresh.Net.SetKeepLog(false)
	b.Count("end_to_end_histories", 1)
	got, want := observe(rel), observe(fresh)
	probes := got
	b.Count("end_to_end_probes", len(probes))
	for i := range want {
		if i >= len(got) || got[i] != want[i] {
			g := "(missing)"
			if i < len(got) {
				g = got[i]
			}
			kind := strings.Fields(want[i])[0]
			if kind != "lookup" {
				kind = strings.Fields(want[i])[1]
			}
			b.Violate(caseNo, fmt.Sprintf("C16/%s/end-to-end/%s-differs-after-reload", format, kind),
				fmt.Sprintf("%s: after the load history %v the server answers %q; a server started on the last good document alone answers %q", format, edits, g, want[i]),
				map[string]interface{}{"format": format, "edits": edits, "reloaded": g, "fresh": want[i]})
			return
		}
	}
}
