package checks

import (
	"bytes"
	"encoding/json"
	"fmt"
	"strings"
	"sync"

	"verif/h/gen"
	"verif/h/mon"
	"verif/h/refsrv"
	"verif/h/rfc8907"
)

// C12 — acknowledged accounting records are written once and say what the
// client sent (offline checker over sink lines and reply writes).

func init() {
	mon.Register(&mon.Check{
		ID:        "C12",
		Boost:     6,
		Batches:   func(tier string) int { return 16 },
		Run:       runC12,
		Technique: "event-log checker: an injected accounting sink (rendering exactly as log.Logger.Printf, in half of the runs through a real log.Logger) and the connection's write events share one logical clock; for every SUCCESS reply the checker looks for exactly one earlier sink record carrying the request's unique task id and compares the decoded record with the request byte for byte",
		Rule: "requests: every flag octet; user/port/rem_addr and arguments over all of 0x00-0x7f with emphasis on %, %s, %!, quotes, backslashes, <>&, control characters; 0..255 arguments; start/stop/watchdog orders on up to 16 concurrent connections sharing the sink; unknown users, users without accounter, undecodable bodies, contradictory flags (stop+watchdog, start+stop). " +
			"A class is (flag class, reply status, character classes present, argument-count bucket); distinct_nontrivial counts classes",
		Assumptions: []string{"the record format is what the reference accounter emits (JSON of the decoded request, Go field names); the syslog accounter needs a syslog daemon socket and is not exercised"},
		MinClasses:  func(tier string) int { return 40 },
	})
}

var c12Spicy = []string{"%", "%s", "%d", "%v", "%!", "%%", "%!v(MISSING)", "\"", "'", "\\", "\\n", "<", ">", "&", "\x00", "\x01", "\x1f", "\x7f", "\t", "\r", "\n", "{", "}", "100%", "%[1]s", "%+v", "%x"}

func c12Text(r *gen.R, n int) (string, string) {
	var sb strings.Builder
	cls := map[string]bool{}
	for sb.Len() < n {
		switch r.Intn(4) {
		case 0:
			s := c12Spicy[r.Intn(len(c12Spicy))]
			sb.WriteString(s)
			switch {
			case strings.Contains(s, "%"):
				cls["pct"] = true
			case s[0] < 0x20 || s[0] == 0x7f:
				cls["ctl"] = true
			default:
				cls["punct"] = true
			}
		case 1:
			sb.Write(r.ASCII(1 + r.Intn(4)))
			cls["ascii"] = true
		default:
			sb.WriteString(r.Alnum(1 + r.Intn(6)))
		}
	}
	s := sb.String()
	if len(s) > n {
		s = s[:n]
	}
	var ks []string
	for _, k := range []string{"pct", "ctl", "punct", "ascii"} {
		if cls[k] {
			ks = append(ks, k)
		}
	}
	return s, strings.Join(ks, "+")
}

type c12Req struct {
	ID      string
	Flags   int
	Seq     int
	User    string
	Port    string
	Rem     string
	Args    []string
	Follow  bool   // sent under the previous request's session id with the next odd number
	Ints    [4]int // method, priv, type, service
	Body    []byte
	Clear   bool
	Garbage bool
	Class   string
}

type acctRecord struct {
	Flags   int
	Method  int
	PrivLvl int
	Type    int
	Service int
	User    string
	Port    string
	RemAddr string
	Args    []string
}

func runC12(b *mon.B) {
	r := gen.New(uint64(b.Seed), 0xC12, uint64(b.Index))
	sc := richConfig(r, 1)
	if b.Index%4 == 3 {
		// a SPAN scope whose span host is down: records must still be written once
		sc.Cfg.Secrets[0] = refsrv.AsSpan(sc.Cfg.Secrets[0], refsrv.DeadSpanHost)
		b.Class("config/span-scope-dead-host")
	}
	ref, err := refsrv.Start(sc.Cfg, refsrv.Options{ViaYAML: b.Index%2 == 0, Keys: sc.Keys})
	if err != nil {
		b.Inconclusive("configuration did not load: %v", err)
		return
	}
	defer ref.Close()
	ref.Net.SetKeepLog(false)
	if b.Index%2 == 1 {
		ref.Sink.UseStdLogger()
	}
	key := []byte(sc.Scopes[0].Key)
	withAcct := []string{"alice", "bob", "dave", "heidi", "per%cent %s%d", "ivan"}
	withoutAcct := []string{"carol", "erin", "frank", "grace", "judy"}
	caseNo := 0
	rounds := b.N(12, 300)
	for round := 0; round < rounds; round++ {
		nconn := 1
		if round%3 == 2 {
			nconn = 2 + r.Intn(15)
		}
		perConn := 10 + r.Intn(20)
		plans := make([][]c12Req, nconn)
		for ci := range plans {
			for k := 0; k < perConn; k++ {
				caseNo++
				q := c12Req{ID: fmt.Sprintf("%d-%d-%d", b.Index, round*100+ci, k), Seq: 1}
				q.Flags = r.Pick(2, 4, 8, 0x0a, r.Intn(256), r.Pick(6, 0x0c, 0x0e, 3, 0x12))
				if q.Flags == 0x0a || r.Chance(1, 8) {
					q.Seq = r.Pick(1, 3, 5)
				}
				var cu, cp, ca string
				q.User = withAcct[r.Intn(len(withAcct))]
				switch r.Intn(12) {
				case 0:
					q.User = withoutAcct[r.Intn(len(withoutAcct))]
					cu = "no-accounter"
				case 1:
					q.User, _ = c12Text(r, 1+r.Intn(30))
					cu = "unknown-user"
				}
				q.Port, cp = c12Text(r, r.Intn(40))
				q.Rem, _ = c12Text(r, r.Intn(40))
				nargs := r.Pick(0, 1, 2, 3, 5, 20, 254)
				if r.Chance(1, 40) {
					nargs = 254
				}
				for i := 0; i < nargs; i++ {
					a, c := c12Text(r, r.Pick(0, 1, 2, 10, 40, 200))
					if c != "" {
						ca = c
					}
					if len(a) > 255 {
						a = a[:255]
					}
					q.Args = append(q.Args, a)
				}
				if r.Chance(1, 500) || (round == 0 && ci == 0 && k == 3 && b.Index%4 == 0) {
					// a request that fills the packet with bytes a JSON encoder expands six-fold
					// (control characters, <, >, &, 0x7f): the record is several times the size of
					// the packet and must still reach the sink whole
					q.Args = q.Args[:0]
					fill := r.PickS("\x01", "\x1f", "<", ">", "&", "\x7f\x00", "\x02<\x1b&", "\"\\\x08")
					for i := 0; i < 254; i++ {
						q.Args = append(q.Args, strings.Repeat(fill, 255)[:255])
					}
					ca = "full-size-expanding"
				}
				// the identifying argument sits first, somewhere in the middle or last, so that
				// empty arguments also occur at the very end
				tid := "task_id=" + q.ID
				switch at := r.Intn(3); {
				case at == 0 || len(q.Args) == 0:
					q.Args = append(q.Args, tid)
				case at == 1:
					q.Args = append([]string{tid}, q.Args...)
				default:
					i := r.Intn(len(q.Args))
					q.Args = append(q.Args[:i], append([]string{tid}, q.Args[i:]...)...)
				}
				if n := len(q.Args); q.Args[n-1] == "" {
					ca += "+trailing-empty"
				}
				q.Ints = [4]int{rfc8907.Methods[r.Intn(len(rfc8907.Methods))], r.Intn(16), r.Intn(7), r.Intn(10)}
				q.Body = bAcctRequest(q.Flags, q.Ints[0], q.Ints[1], q.Ints[2], q.Ints[3], q.User, q.Port, q.Rem, q.Args...)
				if r.Chance(1, 25) {
					q.Garbage, q.Clear = true, true
					q.Body = r.Bytes(r.Intn(40))
				}
				if k > 0 && r.Chance(1, 5) {
					// a further record of the "same" accounting session (start, then updates, then stop
					// under one session id): every packet is a request of its own
					q.Follow = true
					cu += "+same-session-id"
				}
				q.Class = fmt.Sprintf("flags:%s/%s/port:%s/args:%s/n%s", flagClass(q.Flags), cu, cp, ca, lenBucket(len(q.Args)))
				plans[ci] = append(plans[ci], q)
			}
		}
		if b.Only >= 0 && (b.Only < caseNo-nconn*perConn || b.Only > caseNo) {
			continue
		}
		type outcome struct {
			q       c12Req
			status  int
			nrep    int
			writeT  int64
			closed  bool
			skipped bool
		}
		results := make([][]outcome, nconn)
		ref.Sink.Take()
		var wg sync.WaitGroup
		for ci := range plans {
			wg.Add(1)
			go func(ci int) {
				defer wg.Done()
				rc := newRefConn(ref, (round*64+ci)%60000+1, key)
				var prev rfc8907.Header
				for _, q := range plans[ci] {
					fl := 0
					if q.Clear {
						fl = 1
					}
					h := rfc8907.Header{Major: 0xc, Minor: 0, Type: 3, Seq: q.Seq, Flags: fl, Session: uint32(len(results[ci]) + 1 + ci<<16)}
					if q.Follow && prev.Seq != 0 && prev.Seq < 250 {
						h.Session, h.Seq = prev.Session, prev.Seq+2
						q.Seq = h.Seq
					}
					prev = h
					res := rc.send(h, q.Body, !q.Garbage)
					o := outcome{q: q, nrep: len(res.Replies), writeT: rc.c.LastWriteT(), closed: res.State.Closed}
					if res.Err != nil {
						o.skipped = true
					}
					if len(res.Replies) == 1 {
						o.status = res.Replies[0].status()
					}
					results[ci] = append(results[ci], o)
					if res.State.Closed || res.Err != nil {
						break
					}
				}
				rc.c.EOF()
				ref.Net.Forget(rc.c)
			}(ci)
		}
		wg.Wait()
		lines := ref.Sink.Take()
		// index the sink records by task id
		byID := map[string][]refsrv.SinkLine{}
		for _, l := range lines {
			var rec acctRecord
			if err := json.Unmarshal([]byte(l.Text), &rec); err == nil {
				for _, a := range rec.Args {
					if strings.HasPrefix(a, "task_id=") {
						byID[a[8:]] = append(byID[a[8:]], l)
					}
				}
				continue
			}
			// not decodable: locate the id textually
			if i := strings.Index(l.Text, "task_id="); i >= 0 {
				id := l.Text[i+8:]
				if j := strings.IndexAny(id, "\"\\"); j >= 0 {
					id = id[:j]
				}
				byID[id] = append(byID[id], l)
			}
		}
		b.Count("sink_records", len(lines))
		for ci := range results {
			for _, o := range results[ci] {
				if o.skipped {
					b.Inconclusive("watchdog on an accounting exchange")
					continue
				}
				q := o.q
				b.Eval(1)
				b.Class("%s/status%d", q.Class, o.status)
				b.Count(fmt.Sprintf("replies_status_%d", o.status), 1)
				w := func() map[string]interface{} {
					m := map[string]interface{}{"task_id": q.ID, "flags": q.Flags, "seq": q.Seq, "user": q.User, "port": q.Port, "rem_addr": q.Rem, "arg_count": len(q.Args), "reply_status": o.status}
					if ls := byID[q.ID]; len(ls) > 0 {
						m["sink_record"] = clip(ls[0].Text)
					}
					return m
				}
				known := sc.Users[q.User]
				contradictory := (q.Flags&4 != 0 && q.Flags&8 != 0) || (q.Flags&2 != 0 && q.Flags&4 != 0)
				mustError := q.Garbage || contradictory || known == nil || known.Accounter != "file"
				if mustError && o.status != 2 {
					why := "unknown user"
					switch {
					case q.Garbage:
						why = "undecodable body"
					case q.Flags&4 != 0 && q.Flags&8 != 0:
						why = "stop+watchdog flags"
					case q.Flags&2 != 0 && q.Flags&4 != 0:
						why = "start+stop flags"
					case known != nil:
						why = "user without accounter"
					}
					b.Violate(-1, "C12/error-expected/"+strings.ReplaceAll(why, " ", "-"), fmt.Sprintf("accounting request (%s) answered with status %d instead of ERROR", why, o.status), w())
					continue
				}
				if o.status != 1 {
					continue
				}
				recs := byID[q.ID]
				if len(recs) != 1 {
					b.Violate(-1, fmt.Sprintf("C12/success-with-%d-records", minInt(len(recs), 2)), fmt.Sprintf("request %s answered SUCCESS but %d records carrying its task id reached the sink", q.ID, len(recs)), w())
					continue
				}
				if recs[0].T >= o.writeT {
					b.Violate(-1, "C12/record-after-reply", "the record reached the sink after the SUCCESS reply was written", w())
				}
				var rec acctRecord
				if err := json.Unmarshal([]byte(recs[0].Text), &rec); err != nil {
					b.Violate(-1, "C12/record-not-decodable", fmt.Sprintf("the sink record of an acknowledged request does not decode: %v", err), w())
					continue
				}
				field := ""
				switch {
				case rec.Flags != q.Flags:
					field = "flags"
				case rec.Method != q.Ints[0] || rec.PrivLvl != q.Ints[1] || rec.Type != q.Ints[2] || rec.Service != q.Ints[3]:
					field = "method/priv-lvl/type/service"
				case rec.User != q.User:
					field = "user"
				case rec.Port != q.Port:
					field = "port"
				case rec.RemAddr != q.Rem:
					field = "rem_addr"
				case len(rec.Args) != len(q.Args):
					field = "argument-count"
				default:
					for i := range q.Args {
						if rec.Args[i] != q.Args[i] {
							field = "argument"
							break
						}
					}
				}
				if field != "" {
					pct := ""
					if bytes.Contains(q.Body, []byte("%")) {
						pct = "/request-contains-percent"
					}
					b.Violate(-1, "C12/record-differs/"+field+pct, fmt.Sprintf("the acknowledged record's %s differs from what the client sent", field), w())
					continue
				}
				b.Count("faithful_acknowledged_records", 1)
				if len(q.Args) < 4 {
					b.Sample("record", map[string]interface{}{"request_args": q.Args, "port": q.Port, "sink_record": clip(recs[0].Text)})
				}
			}
		}
	}
}

func flagClass(f int) string {
	switch f {
	case 2:
		return "start"
	case 4:
		return "stop"
	case 8:
		return "watchdog"
	case 0x0a:
		return "watchdog-update"
	}
	if f&4 != 0 && f&8 != 0 {
		return "stop+watchdog"
	}
	return "other"
}

func minInt(a, b int) int {
	if a < b {
		return a
	}
	return b
}
