package checks

import (
	"encoding/binary"

	"verif/h/gen"
	"verif/h/rfc8907"
)

// lenOffsets returns, for an encoding of v, the offsets and widths of every
// length element (text lengths, arg_cnt, each arg length) and of every enum
// octet, derived from the reference layout.
type fieldPos struct {
	Name  string
	Off   int
	Width int
	Kind  rfc8907.Kind
}

func positions(v *rfc8907.Value) []fieldPos {
	var out []fieldPos
	pos := 0
	for _, e := range rfc8907.Layouts[v.Layout] {
		switch e.Kind {
		case rfc8907.U8, rfc8907.Len8, rfc8907.ArgCnt:
			out = append(out, fieldPos{e.Name, pos, 1, e.Kind})
			pos++
		case rfc8907.Len16:
			out = append(out, fieldPos{e.Name, pos, 2, e.Kind})
			pos += 2
		case rfc8907.ArgLens:
			for i := range v.Args {
				out = append(out, fieldPos{"arg_len", pos + i, 1, e.Kind})
			}
			pos += len(v.Args)
		case rfc8907.Text:
			pos += len(v.Texts[e.Name])
		case rfc8907.Args:
			for _, a := range v.Args {
				pos += len(a)
			}
		}
	}
	return out
}

// hostileBodies yields malformed/edge inputs derived from one valid value:
// every truncation (or a sample when long), every length element rewritten to
// edge values, every enum octet set to invalid members, bit flips, trailing
// garbage.
func hostileBodies(r *gen.R, v *rfc8907.Value, dense bool, emit func(kind string, b []byte)) {
	enc, err := v.Encode()
	if err != nil {
		return
	}
	emit("valid", enc)
	// truncations
	if len(enc) <= 96 || dense {
		step := 1
		if len(enc) > 600 {
			step = len(enc) / 300
		}
		for n := 0; n < len(enc); n += step {
			emit("truncated", enc[:n])
		}
	} else {
		for k := 0; k < 24; k++ {
			emit("truncated", enc[:r.Intn(len(enc))])
		}
		for n := 0; n < 24 && n < len(enc); n++ {
			emit("truncated", enc[:n])
		}
	}
	// length rewrites
	for _, p := range positions(v) {
		switch p.Kind {
		case rfc8907.Len8, rfc8907.ArgCnt, rfc8907.ArgLens:
			cur := int(enc[p.Off])
			for _, nv := range []int{0, 1, cur - 1, cur + 1, 127, 128, 254, 255} {
				if nv < 0 || nv > 255 || nv == cur {
					continue
				}
				m := append([]byte{}, enc...)
				m[p.Off] = byte(nv)
				emit("len8-rewrite", m)
			}
		case rfc8907.Len16:
			cur := int(binary.BigEndian.Uint16(enc[p.Off:]))
			for _, nv := range []int{0, 1, cur - 1, cur + 1, 127, 128, 255, 256, 0x7fff, 0x8000, 0xffff} {
				if nv < 0 || nv > 0xffff || nv == cur {
					continue
				}
				m := append([]byte{}, enc...)
				binary.BigEndian.PutUint16(m[p.Off:], uint16(nv))
				emit("len16-rewrite", m)
			}
		case rfc8907.U8:
			for _, nv := range []int{0, 7, 0x0b, 0x10, 0x11, 0x7f, 0x80, 0xff} {
				m := append([]byte{}, enc...)
				m[p.Off] = byte(nv)
				emit("enum-rewrite", m)
			}
		}
	}
	// bit flips and trailing garbage
	for k := 0; k < 6 && len(enc) > 0; k++ {
		m := append([]byte{}, enc...)
		m[r.Intn(len(m))] ^= 1 << uint(r.Intn(8))
		emit("bitflip", m)
	}
	emit("trailing", append(append([]byte{}, enc...), r.Bytes(1+r.Intn(20))...))
	// non-ASCII byte inside a text
	if len(enc) > 12 {
		m := append([]byte{}, enc...)
		m[len(m)-1] |= 0x80
		emit("non-ascii", m)
	}
}

// randomBodies yields random byte strings: dense in 0..64 and some up to 70000.
func randomBodies(r *gen.R, n int, emit func(kind string, b []byte)) {
	for i := 0; i < n; i++ {
		var l int
		switch r.Intn(10) {
		case 0:
			l = r.Pick(255, 256, 257, 4096, 65535, 65536, 65537, 65548, 70000)
		case 1, 2:
			l = r.Intn(2000)
		default:
			l = r.Intn(65)
		}
		b := r.Bytes(l)
		// bias: small counts/lengths make more inputs consistent
		if l > 9 && r.Bool() {
			for k := 0; k < 9; k++ {
				b[k] %= 12
			}
		}
		emit("random", b)
	}
}
