package checks

import (
	"fmt"
	"hash/fnv"

	"verif/h/gen"
	"verif/h/rfc8907"
)

// rawBody is an EncoderDecoder whose encoding is exactly the given bytes: it
// lets a handler reply with a body of the test's choosing.
type rawBody struct {
	B   []byte
	Err error
}

func (r *rawBody) MarshalBinary() ([]byte, error) {
	if r.Err != nil {
		return nil, r.Err
	}
	if r.B == nil {
		return []byte{}, nil
	}
	return append([]byte{}, r.B...), nil
}
func (r *rawBody) UnmarshalBinary(b []byte) error { r.B = append([]byte{}, b...); return nil }
func (r *rawBody) Fields() map[string]string      { return map[string]string{"packet-type": "raw"} }

// pktSpec is one packet as the test intends it: header and cleartext body.
type pktSpec struct {
	H     rfc8907.Header
	Clear []byte
}

// wire renders the packet with the reference codec and pad.
func (p pktSpec) wire(secret []byte) []byte { return rfc8907.Packet(p.H, secret, p.Clear) }

// schedule cuts a byte stream into chunks; each server Read gets at most one.
type schedule struct {
	Name string
	Cut  func(r *gen.R, stream []byte, bounds []int) [][]byte
}

func cutEvery(n int) func(r *gen.R, s []byte, b []int) [][]byte {
	return func(r *gen.R, s []byte, b []int) [][]byte {
		var out [][]byte
		for len(s) > 0 {
			k := n
			if k > len(s) {
				k = len(s)
			}
			out = append(out, s[:k])
			s = s[k:]
		}
		return out
	}
}

func cutAt(s []byte, cuts []int) [][]byte {
	var out [][]byte
	prev := 0
	for _, c := range cuts {
		if c > prev && c <= len(s) {
			out = append(out, s[prev:c])
			prev = c
		}
	}
	if prev < len(s) {
		out = append(out, s[prev:])
	}
	return out
}

// schedules: bounds holds, for every packet, the offset of its header start.
var schedules = []schedule{
	{"whole-stream", func(r *gen.R, s []byte, b []int) [][]byte { return [][]byte{s} }},
	{"1-byte", cutEvery(1)},
	{"2-byte", cutEvery(2)},
	{"11-byte", cutEvery(11)},
	{"12-byte", cutEvery(12)},
	{"13-byte", cutEvery(13)},
	{"106-byte", cutEvery(106)},
	{"107-byte(bufio size)", cutEvery(107)},
	{"108-byte", cutEvery(108)},
	{"4096-byte", cutEvery(4096)},
	{"random-small", func(r *gen.R, s []byte, b []int) [][]byte {
		var out [][]byte
		for len(s) > 0 {
			k := 1 + r.Intn(24)
			if k > len(s) {
				k = len(s)
			}
			out = append(out, s[:k])
			s = s[k:]
		}
		return out
	}},
	{"random-large", func(r *gen.R, s []byte, b []int) [][]byte {
		var out [][]byte
		for len(s) > 0 {
			k := 1 + r.Intn(3000)
			if k > len(s) {
				k = len(s)
			}
			out = append(out, s[:k])
			s = s[k:]
		}
		return out
	}},
	{"on-header-and-body-boundaries", func(r *gen.R, s []byte, b []int) [][]byte {
		var cuts []int
		for _, o := range b {
			cuts = append(cuts, o, o+12)
		}
		return cutAt(s, cuts)
	}},
	{"header-plus-one-body-byte", func(r *gen.R, s []byte, b []int) [][]byte {
		var cuts []int
		for _, o := range b {
			cuts = append(cuts, o+13)
		}
		return cutAt(s, cuts)
	}},
	{"header-minus-one", func(r *gen.R, s []byte, b []int) [][]byte {
		var cuts []int
		for _, o := range b {
			cuts = append(cuts, o+11)
		}
		return cutAt(s, cuts)
	}},
	{"packets-coalesced-in-pairs", func(r *gen.R, s []byte, b []int) [][]byte {
		var cuts []int
		for i, o := range b {
			if i%2 == 0 {
				cuts = append(cuts, o)
			}
		}
		return cutAt(s, cuts)
	}},
	{"packet-and-a-half", func(r *gen.R, s []byte, b []int) [][]byte {
		var cuts []int
		for i := 0; i+1 < len(b); i += 2 {
			cuts = append(cuts, (b[i]+b[i+1])/2+1)
		}
		return cutAt(s, cuts)
	}},
}

func chunkHash(name string, chunks [][]byte) string {
	h := fnv.New64a()
	h.Write([]byte(name))
	for _, c := range chunks {
		fmt.Fprintf(h, "%d,", len(c))
	}
	return fmt.Sprintf("%s/%x", name, h.Sum64()&0xffffff)
}
