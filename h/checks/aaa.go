package checks

import (
	"fmt"
	"runtime"
	"strings"
	"time"

	"verif/h/mon"

	"verif/h/refsrv"
	"verif/h/rfc8907"
	"verif/h/simnet"
	"verif/h/tap"
)

// Request builders (reference codec only).

func bAuthenStart(action, priv, atype, service int, user, port, rem, data string) []byte {
	v := rfc8907.NewValue(rfc8907.AuthenStart)
	v.Ints["action"], v.Ints["priv_lvl"], v.Ints["authen_type"], v.Ints["authen_service"] = action, priv, atype, service
	v.Texts["user"], v.Texts["port"], v.Texts["rem_addr"], v.Texts["data"] = []byte(user), []byte(port), []byte(rem), []byte(data)
	b, err := v.Encode()
	if err != nil {
		panic(err)
	}
	return b
}

func bAuthenContinue(flags int, msg, data string) []byte {
	v := rfc8907.NewValue(rfc8907.AuthenContinue)
	v.Ints["flags"] = flags
	v.Texts["user_msg"], v.Texts["data"] = []byte(msg), []byte(data)
	b, err := v.Encode()
	if err != nil {
		panic(err)
	}
	return b
}

func bAuthorRequest(method, priv, atype, service int, user, port, rem string, args ...string) []byte {
	v := rfc8907.NewValue(rfc8907.AuthorRequest)
	v.Ints["authen_method"], v.Ints["priv_lvl"], v.Ints["authen_type"], v.Ints["authen_service"] = method, priv, atype, service
	v.Texts["user"], v.Texts["port"], v.Texts["rem_addr"] = []byte(user), []byte(port), []byte(rem)
	for _, a := range args {
		v.Args = append(v.Args, []byte(a))
	}
	b, err := v.Encode()
	if err != nil {
		panic(err)
	}
	return b
}

func bAcctRequest(flags, method, priv, atype, service int, user, port, rem string, args ...string) []byte {
	v := rfc8907.NewValue(rfc8907.AcctRequest)
	v.Ints["flags"], v.Ints["authen_method"], v.Ints["priv_lvl"], v.Ints["authen_type"], v.Ints["authen_service"] = flags, method, priv, atype, service
	v.Texts["user"], v.Texts["port"], v.Texts["rem_addr"] = []byte(user), []byte(port), []byte(rem)
	for _, a := range args {
		v.Args = append(v.Args, []byte(a))
	}
	b, err := v.Encode()
	if err != nil {
		panic(err)
	}
	return b
}

// reply is one reply packet decoded with the reference.
type reply struct {
	Raw    []byte
	Header rfc8907.Header
	Clear  []byte
	Value  *rfc8907.Value // nil if the body is not a well-formed REPLY of its type
}

func (r reply) status() int {
	if r.Value == nil {
		return -1
	}
	return r.Value.Ints["status"]
}

func (r reply) msg() string {
	if r.Value == nil {
		return ""
	}
	return string(r.Value.Texts["server_msg"])
}

func decodeReplies(key []byte, raws [][]byte) []reply {
	var out []reply
	for _, raw := range raws {
		h, _ := rfc8907.DecodeHeader(raw)
		clear := rfc8907.Obfuscate(h, key, raw[12:])
		rp := reply{Raw: raw, Header: h, Clear: clear}
		if l, ok := replyLayoutOf[h.Type]; ok {
			if v, cls := rfc8907.Decode(l, clear); cls == rfc8907.OK {
				rp.Value = v
			}
		}
		out = append(out, rp)
	}
	return out
}

// refConn drives one connection of a reference server in lock-step and keeps
// the per-connection session model (which sessions are open, last number).
type refConn struct {
	ref  *refsrv.Ref
	c    *simnet.Conn
	key  []byte
	last map[uint32]int // open sessions -> last sequence number received or sent
}

func newRefConn(ref *refsrv.Ref, remote int, key []byte) *refConn {
	return &refConn{ref: ref, c: ref.L.Dial(simnet.RemoteFor(remote)), key: key, last: map[uint32]int{}}
}

type stepResult struct {
	Replies []reply
	Stray   int
	Invs    []*tap.Inv
	State   simnet.State
	Err     error
	// Verdict of the session/header model for this packet: "accept",
	// "reject:<reason>" or "unjudged".
	Verdict string
}

// classify applies the header/sequence/key-mismatch model to a packet about to
// be sent (seen = the body as the server will see it after de-obfuscation).
func (rc *refConn) classify(h rfc8907.Header, seen []byte, wellFormed bool) string {
	switch {
	case h.Major != 0xc || h.Minor > 1:
		return "reject:version"
	case h.Type < 1 || h.Type > 3:
		return "reject:type"
	case h.Seq == 0:
		return "reject:seq0"
	case h.Length > 65536:
		return "reject:oversize"
	}
	// the key-mismatch detector runs before the session lookup
	if h.Flags&1 == 0 && !wellFormed {
		if _, all := classVector(h.Type, seen); all {
			return "reject:key-mismatch"
		}
		if !wellFormedSomewhere(h.Type, seen) {
			// neither clearly a mismatch nor clearly fine
			if h.Seq%2 == 0 {
				return "reject:even" // rejected either way
			}
			return "unjudged"
		}
	}
	if h.Seq%2 == 0 {
		return "reject:even"
	}
	if last, ok := rc.last[h.Session]; ok && h.Seq <= last {
		return "reject:not-increasing"
	}
	return "accept"
}

func wellFormedSomewhere(typ int, body []byte) bool {
	for _, l := range rfc8907.LayoutsOfType[typ] {
		if _, c := rfc8907.Decode(l, body); c == rfc8907.OK {
			return true
		}
	}
	return false
}

// send plays one packet. wellFormed: the body is a well-formed body of one of
// the request layouts of its type under the connection's key.
func (rc *refConn) send(h rfc8907.Header, clear []byte, wellFormed bool) stepResult {
	h.Length = uint32(len(clear))
	verdict := rc.classify(h, clear, wellFormed)
	before := rc.ref.Tap.Count()
	rc.c.Feed(pktSpec{H: h, Clear: clear}.wire(rc.key))
	st, err := rc.c.WaitQuiescent()
	raws, stray := rc.c.TakePackets()
	res := stepResult{Replies: decodeReplies(rc.key, raws), Stray: stray, State: st, Err: err, Verdict: verdict}
	for _, iv := range rc.ref.Tap.Since(before) {
		if iv.Conn == rc.c.ID {
			res.Invs = append(res.Invs, iv)
		}
	}
	// update the session model from what was observed at the API boundary
	if len(res.Invs) == 1 {
		iv := res.Invs[0]
		if iv.NextSet {
			l := h.Seq
			if len(raws) > 0 || iv.Replies > 0 {
				l = h.Seq + 1
			}
			rc.last[h.Session] = l
		} else {
			delete(rc.last, h.Session)
		}
	}
	return res
}

// stuckServerFrame looks, after a watchdog, for a quiescent-state witness of a server
// goroutine that is stuck while processing a request: a goroutine with a tacquito frame
// parked on a lock. It returns the first tacquito frame of that goroutine, or "".
func stuckServerFrame() string { return stuckFrame(false) }

// stuckFrame: with chans, goroutines parked on a channel send / receive count as well (used after a
// cancellation, when nothing in tacquito has a reason to wait on a channel for seconds).
func stuckFrame(chans bool) string {
	parked := func() map[string]string {
		buf := make([]byte, 8<<20)
		buf = buf[:runtime.Stack(buf, true)]
		out := map[string]string{}
		for _, g := range strings.Split(string(buf), "\n\n") {
			head := g
			if i := strings.IndexByte(g, '\n'); i > 0 {
				head = g[:i]
			}
			if !strings.Contains(g, "facebookincubator/tacquito") {
				continue
			}
			if strings.Contains(head, "Lock]") || strings.Contains(head, "Lock,") ||
				chans && (strings.Contains(head, "[chan send") || strings.Contains(head, "[chan receive")) {
				// "goroutine 123 [sync.RWMutex.Lock]:" -> id 123
				f := strings.Fields(head)
				if len(f) >= 2 {
					out[f[1]] = mon.FirstTacquitoFrame(g)
				}
			}
		}
		return out
	}
	// Two dumps several seconds apart: only a goroutine that is parked on a lock in BOTH counts.
	// (A single dump can catch a goroutine that is merely queueing for a mutex on a busy machine.)
	first := parked()
	if len(first) == 0 {
		return ""
	}
	time.Sleep(5 * time.Second)
	second := parked()
	for id, frame := range first {
		if _, still := second[id]; still {
			return frame
		}
	}
	return ""
}

// judgeC07 applies the one-request-one-reply oracle to a step.
func judgeC07(res stepResult, h rfc8907.Header) (slug, msg string) {
	nrep := len(res.Replies)
	switch {
	case res.Stray != 0:
		return "stray-bytes", fmt.Sprintf("%d bytes written that do not form a packet", res.Stray)
	case res.Verdict == "accept":
		want := 1
		if h.Seq == 255 {
			want = 0
		}
		if len(res.Invs) != 1 {
			return "accepted-request-not-dispatched", fmt.Sprintf("%d handler entries for an acceptable request (closed=%v, %d packets written)", len(res.Invs), res.State.Closed, nrep)
		}
		if nrep > want {
			return "double-reply", fmt.Sprintf("%d reply packets written for one request before the next read", nrep)
		}
		if nrep < want {
			return "no-reply", "no reply packet written for an accepted request; the server went back to reading"
		}
		if res.State.Closed {
			return "closed-after-accepted-request", "connection closed after an accepted request"
		}
	case res.Verdict == "unjudged":
		if len(res.Invs) == 0 {
			if nrep > 1 {
				return "rejected-many-packets", fmt.Sprintf("%d packets written for a refused request", nrep)
			}
			if !res.State.Closed {
				return "rejected-connection-open", "refused request (no handler) but the connection stays open"
			}
		} else {
			if nrep != 1 && h.Seq != 255 {
				return "unjudged-dispatched-reply-count", fmt.Sprintf("request reached a handler and %d packets were written", nrep)
			}
			if res.State.Closed {
				return "unjudged-half-processed", "request reached a handler and the connection was closed"
			}
		}
	default: // reject:*
		if len(res.Invs) != 0 {
			return "rejected-request-reached-handler/" + res.Verdict[7:], fmt.Sprintf("request that must be rejected (%s) reached handler %s", res.Verdict[7:], res.Invs[0].HandlerID)
		}
		if nrep > 1 {
			return "rejected-many-packets", fmt.Sprintf("%d packets written for a rejected request", nrep)
		}
		if !res.State.Closed {
			return "rejected-connection-open/" + res.Verdict[7:], "rejected request but the connection stays open"
		}
	}
	return "", ""
}
