package checks

import (
	"fmt"
	"sync"
	"sync/atomic"

	"verif/h/gen"
	"verif/h/mon"
	"verif/h/rfc8907"
)

// C19 — key mismatch is signalled and never processed; valid requests are
// never flagged.

func init() {
	mon.Register(&mon.Check{
		ID:        "C19",
		Boost:     8,
		Batches:   func(tier string) int { return 16 },
		Run:       runC19,
		Technique: "classifier-based runtime monitor: the bytes the server will see after de-obfuscation are classified by an independent length-consistency evaluator (h/rfc8907.Decode); the real connection loop is then observed in lock-step (handler entries, packets written, close)",
		Rule: "inputs: valid requests of all seven body types obfuscated with a different secret than the server's; crafted under-runs per layout; well-formed requests of every type and size under the right secret and in the clear (including bodies that are inconsistent under the other layouts of their type, and garbage in the clear). " +
			"must-flag = under-run under every layout of the header's type; must-not-flag = well-formed under the server's secret, or unencrypted flag; the rest is unjudged. A class is (packet type, judgement, per-layout class vector); distinct_nontrivial counts classes",
		Assumptions: []string{"the error reply is judged only for: exactly one packet, header type = request type, body (de-obfuscated with the server's secret by the reference) decodes as that type's REPLY with ERROR status"},
		MinClasses:  func(tier string) int { return 20 },
	})
}

func classVector(typ int, body []byte) (string, bool) {
	vec := ""
	all := true
	for _, l := range rfc8907.LayoutsOfType[typ] {
		_, c := rfc8907.Decode(l, body)
		vec += c.String() + ","
		if c != rfc8907.Underrun {
			all = false
		}
	}
	return vec, all
}

var errStatus = map[int]int{1: 7, 2: 0x11, 3: 2}
var replyLayoutOf = map[int]string{1: rfc8907.AuthenReply, 2: rfc8907.AuthorReply, 3: rfc8907.AcctReply}
var requestLayoutsOf = map[int][]string{1: {rfc8907.AuthenStart, rfc8907.AuthenContinue}, 2: {rfc8907.AuthorRequest}, 3: {rfc8907.AcctRequest}}

func runC19(b *mon.B) {
	r := gen.New(uint64(b.Seed), 0xC19, uint64(b.Index))
	srv := startLibServer()
	srv.Net.SetKeepLog(false)
	defer srv.Stop()
	caseNo := 0
	connNo := 0
	serverKey := []byte("server-key-" + r.Alnum(6))
	if b.Index%4 == 1 {
		// long secrets: this batch's client secrets share a 60..100-byte prefix with the server's
		serverKey = []byte("server-key-" + r.Alnum(60+r.Intn(60)))
	}
	conn := srv.dial(1, serverKey)

	// judge sends bytes whose post-deobfuscation content (as the server sees
	// it) is `seen`, under header h.
	judge := func(h rfc8907.Header, seen []byte, origin string, wellFormed bool) {
		caseNo++
		if !b.Want(caseNo) {
			return
		}
		vec, allUnder := classVector(h.Type, seen)
		clearFlag := h.Flags&1 != 0
		judgement := "unjudged"
		switch {
		case clearFlag || wellFormed:
			judgement = "must-not-flag"
		case allUnder:
			judgement = "must-flag"
		}
		// what goes on the wire: obfuscate `seen` with the server's key
		wire := pktSpec{H: h, Clear: seen}.wire(serverKey)
		if judgement == "must-flag" && caseNo%3 == 0 {
			// the same segment carries a second mismatching packet (a client with the wrong key that
			// pipelines): still one error packet and a close - and nothing of it may reach the next
			// connection
			h2 := h
			h2.Session ^= 0x5a5a
			wire = append(wire, pktSpec{H: h2, Clear: seen}.wire(serverKey)...)
			b.Count("mismatches_with_a_second_packet_in_the_segment", 1)
		}
		written, stray, invs, st, err := srv.step(conn, wire)
		if err != nil {
			b.Inconclusive("case %d: %v", caseNo, err)
			connNo++
			conn = srv.dial(100+connNo, serverKey)
			return
		}
		b.Eval(1)
		b.Class("type%d/%s/%s/u%d", h.Type, judgement, vec, h.Flags&1)
		b.Count("judgement:"+judgement, 1)
		if caseNo%499 == 0 {
			b.Sample(judgement, map[string]interface{}{"origin": origin, "header": hexs(h.Encode()), "body_seen_by_server": hexs(seen), "layout_classes": vec})
		}
		w := func() map[string]interface{} {
			return map[string]interface{}{"origin": origin, "header": hexs(h.Encode()), "body_seen_by_server": hexs(seen), "layout_classes": vec,
				"handlers": len(invs), "packets_written": len(written), "closed": st.Closed}
		}
		switch judgement {
		case "must-flag":
			if len(invs) != 0 {
				b.Violate(caseNo, fmt.Sprintf("C19/mismatch-reached-handler/type%d", h.Type), fmt.Sprintf("a type-%d body inconsistent under every layout (%s) reached a handler", h.Type, vec), w())
			} else if len(written) != 1 || stray != 0 {
				b.Violate(caseNo, fmt.Sprintf("C19/mismatch-not-signalled/type%d", h.Type), fmt.Sprintf("key mismatch signature on type %d: %d packets (+%d stray bytes) written, exactly one error packet expected", h.Type, len(written), stray), w())
			} else {
				rh, _ := rfc8907.DecodeHeader(written[0])
				body := rfc8907.Obfuscate(rh, serverKey, written[0][12:])
				v, cls := rfc8907.Decode(replyLayoutOf[h.Type], body)
				if rh.Type != h.Type {
					b.Violate(caseNo, "C19/error-packet-wrong-type", fmt.Sprintf("error packet has type %d for a type-%d request", rh.Type, h.Type), w())
				} else if cls != rfc8907.OK || v.Ints["status"] != errStatus[h.Type] {
					b.Violate(caseNo, fmt.Sprintf("C19/error-packet-not-error-status/type%d", h.Type), fmt.Sprintf("error packet body is %s with status %#x (expected ERROR %#x)", cls, v.Ints["status"], errStatus[h.Type]), w())
				}
			}
			if !st.Closed {
				b.Violate(caseNo, fmt.Sprintf("C19/mismatch-connection-open/type%d", h.Type), "connection left open after a key mismatch signature", w())
			}
		case "must-not-flag":
			if len(invs) != 1 {
				why := "well-formed under the server's secret"
				if clearFlag {
					why = "sent with the unencrypted flag"
				}
				b.Violate(caseNo, fmt.Sprintf("C19/valid-request-flagged/type%d/%s", h.Type, map[bool]string{true: "clear", false: "keyed"}[clearFlag]),
					fmt.Sprintf("a type-%d request %s reached %d handlers (closed=%v, %d packets written)", h.Type, why, len(invs), st.Closed, len(written)), w())
			} else if st.Closed {
				b.Violate(caseNo, "C19/valid-request-closed", "connection closed after a valid request", w())
			}
		default:
			// either way, but completely one of the two ways
			if len(invs) > 0 && st.Closed {
				b.Violate(caseNo, "C19/half-processed", "request both reached a handler and had its connection closed", w())
			}
			if len(invs) > 0 {
				b.Count("unjudged_dispatched", 1)
			} else {
				b.Count("unjudged_refused", 1)
			}
		}
		if st.Closed {
			connNo++
			srv.Net.Forget(conn)
			conn = srv.dial(100+connNo, serverKey)
		}
	}

	hdr := func(typ int, clear bool) rfc8907.Header {
		fl := r.Pick(0, 0, 4)
		if clear {
			fl |= 1
		}
		return rfc8907.Header{Major: 0xc, Minor: r.Intn(2), Type: typ, Seq: 1 + 2*r.Intn(100), Flags: fl, Session: r.U32()}
	}

	n := b.N(350, 20000)
	for k := 0; k < n; k++ {
		typ := 1 + k%3
		ls := requestLayoutsOf[typ]
		layout := ls[r.Intn(len(ls))]
		v := randomValue(r, layout)
		if r.Chance(3, 4) { // mostly moderate sizes
			if len(v.Args) > 12 {
				v.Args = v.Args[:12]
			}
			for _, tf := range textFields(layout) {
				if len(v.Texts[tf.Name]) > 60 {
					v.Texts[tf.Name] = v.Texts[tf.Name][:60]
				}
			}
		}
		if layout == rfc8907.AuthenStart && v.Ints["authen_type"] == 1 {
			v.Texts["data"] = fillText(r, layout, "data", len(v.Texts["data"]), 1, false)
		}
		enc, err := v.Encode()
		if err != nil || len(enc) > 65536 {
			continue
		}
		// (1) wrong key: the server sees enc XOR pad(client) XOR pad(server)
		clientKey := []byte("client-key-" + r.Alnum(1+r.Intn(8)))
		if len(serverKey) > 60 && r.Bool() {
			// differs from the server's secret only after a long common prefix
			clientKey = append(append([]byte{}, serverKey[:60+r.Intn(len(serverKey)-60)]...), []byte("X"+r.Alnum(3))...)
		}
		h := hdr(typ, false)
		h.Length = uint32(len(enc))
		seen := rfc8907.Obfuscate(h, serverKey, rfc8907.Obfuscate(h, clientKey, enc))
		judge(h, seen, "valid "+layout+" under another secret", false)
		// (2) right key: must not be flagged
		judge(hdr(typ, false), enc, "valid "+layout+" under the server's secret", true)
		// (3) in the clear, right or wrong: never a mismatch
		if k%3 == 0 {
			judge(hdr(typ, true), enc, "valid "+layout+" in the clear", true)
			judge(hdr(typ, true), r.Bytes(r.Intn(60)), "garbage in the clear", false)
		}
		// (4) crafted under-run: bump one length element
		ps := positions(v)
		var lens []fieldPos
		for _, p := range ps {
			if p.Kind == rfc8907.Len8 || p.Kind == rfc8907.Len16 || p.Kind == rfc8907.ArgLens {
				lens = append(lens, p)
			}
		}
		if len(lens) > 0 {
			p := lens[r.Intn(len(lens))]
			m := append([]byte{}, enc...)
			if p.Width == 1 {
				m[p.Off] = byte(int(m[p.Off]) + 1 + r.Intn(40))
			} else {
				m[p.Off] = byte(int(m[p.Off]) + 1 + r.Intn(3))
			}
			judge(hdr(typ, false), m, "length element of a valid "+layout+" bumped", false)
		}
		// (5) random bytes under the key
		if k%2 == 0 {
			judge(hdr(typ, false), r.Bytes(5+r.Intn(70)), "random bytes", false)
		}
	}
	// (8) many connections at the same time, all bound to ONE secret slice that has spare
	// capacity (a provider may hand out the same slice to every connection): well-formed
	// requests under that secret must never be flagged
	{
		shared := make([]byte, 0, 64)
		shared = append(shared, []byte("shared-"+r.Alnum(8))...)
		nconn := 8
		var wg sync.WaitGroup
		var flagged, sent int64
		for ci := 0; ci < nconn; ci++ {
			wg.Add(1)
			cr := r.Fork(uint64(900 + ci))
			cc := srv.dial(50000+ci, shared)
			go func(ci int) {
				defer wg.Done()
				for k := 0; k < b.N1(150, 1500); k++ {
					typ := 1 + cr.Intn(3)
					ls := requestLayoutsOf[typ]
					v := smallValue(cr, ls[cr.Intn(len(ls))])
					if v.Layout == rfc8907.AuthenStart && v.Ints["authen_type"] == 1 {
						v.Texts["data"] = fillText(cr, v.Layout, "data", len(v.Texts["data"]), 1, false)
					}
					enc, _ := v.Encode()
					h := rfc8907.Header{Major: 0xc, Minor: cr.Intn(2), Type: typ, Seq: 1 + 2*cr.Intn(100), Session: cr.U32()}
					cc.Feed(pktSpec{H: h, Clear: enc}.wire(shared))
					st, err := cc.WaitQuiescent()
					cc.TakePackets()
					atomic.AddInt64(&sent, 1)
					if err != nil {
						return
					}
					if st.Closed {
						atomic.AddInt64(&flagged, 1)
						return
					}
				}
				cc.EOF()
			}(ci)
		}
		wg.Wait()
		caseNo++
		b.Eval(1)
		b.Class("concurrent-connections-sharing-one-secret-slice")
		b.Count("concurrent_shared_secret_requests", int(sent))
		if flagged > 0 {
			b.Violate(caseNo, "C19/valid-request-flagged/concurrent-shared-secret", fmt.Sprintf("%d of %d concurrent connections bound to the same secret were closed on a well-formed request under that secret", flagged, nconn), nil)
		}
	}
	// (7) the mismatch shows up in a FOLLOW-UP packet of a session that started fine
	// (continuation pending): same verdicts are required
	for k := 0; k < b.N(60, 3000); k++ {
		typ := 1 + k%3
		sid := r.U32()
		h1 := rfc8907.Header{Major: 0xc, Minor: 0, Type: typ, Seq: 1, Session: sid}
		srv.Plan.set(sid, planStep{Reply: &rawBody{B: []byte{1, 0, 0, 0, 0, 0}}, Next: true}, planStep{Reply: &rawBody{B: []byte{1, 0, 0, 0, 0, 0}}, Next: true})
		_, _, invs, st, err := srv.step(conn, pktSpec{H: h1, Clear: c05Body(r, typ, 12, false)}.wire(serverKey))
		if err != nil || st.Closed || len(invs) != 1 {
			connNo++
			conn = srv.dial(100+connNo, serverKey)
			continue
		}
		ls := requestLayoutsOf[typ]
		v := smallValue(r, ls[r.Intn(len(ls))])
		if v.Layout == rfc8907.AuthenStart && v.Ints["authen_type"] == 1 {
			v.Texts["data"] = fillText(r, v.Layout, "data", len(v.Texts["data"]), 1, false)
		}
		enc, _ := v.Encode()
		h3 := rfc8907.Header{Major: 0xc, Minor: 0, Type: typ, Seq: 3, Session: sid}
		if k%2 == 0 {
			clientKey := []byte("other-" + r.Alnum(5))
			h3.Length = uint32(len(enc))
			judge(h3, rfc8907.Obfuscate(h3, serverKey, rfc8907.Obfuscate(h3, clientKey, enc)), "follow-up packet (seq 3) of an open session under another secret", false)
		} else {
			judge(h3, enc, "follow-up packet (seq 3) of an open session under the server's secret", true)
		}
	}
	// (6) well-formed under the right key but inconsistent under the sibling layouts
	for k := 0; k < b.N(60, 2000); k++ {
		typ := 1 + k%3
		ls := requestLayoutsOf[typ]
		layout := ls[r.Intn(len(ls))]
		var v *rfc8907.Value
		for try := 0; try < 50; try++ {
			v = smallValue(r, layout)
			if layout == rfc8907.AuthenStart && v.Ints["authen_type"] == 1 {
				v.Texts["data"] = fillText(r, layout, "data", len(v.Texts["data"]), 1, false)
			}
			enc, _ := v.Encode()
			others := 0
			for _, o := range rfc8907.LayoutsOfType[typ] {
				if o == layout {
					continue
				}
				if _, c := rfc8907.Decode(o, enc); c == rfc8907.Underrun {
					others++
				}
			}
			if others == len(rfc8907.LayoutsOfType[typ])-1 {
				break
			}
		}
		enc, _ := v.Encode()
		judge(hdr(typ, false), enc, "valid "+layout+", under-run under every sibling layout", true)
	}
}
