package checks

import (
	"fmt"

	"github.com/facebookincubator/tacquito/cmds/server/config"
	"verif/h/gen"
	"verif/h/refsrv"
)

// userInfo is what the test knows about a configured user (independently of
// the server): used by the evaluators.
type userInfo struct {
	Name     string
	Scopes   []string
	Password string // "" = no usable credential
	// Cred: "hash" (own/group hash option), "keychain", "keychain-fail",
	// "badhex", "none" (no authenticator), "unregistered" (type without factory)
	Cred      string
	Accounter string // "file", "none", "unregistered"
}

type stdCfg struct {
	Cfg    config.ServerConfig
	Users  map[string]*userInfo // by name (single-scope helper configs)
	Keys   *refsrv.KeyStore
	Scopes []scopeInfo
}

type scopeInfo struct {
	Name   string
	Key    string
	Prefix string
	// Remote(i) gives the i-th client address of the scope
	Octet int
}

func permitAll() config.Command { return config.Command{Name: "*", Action: config.PERMIT} }

// richConfig builds a loadable configuration that contains every kind of user
// the handler paths distinguish. Scope k serves clients 10.k.0.0/16.
func richConfig(r *gen.R, nScopes int) *stdCfg {
	s := &stdCfg{Users: map[string]*userInfo{}, Keys: &refsrv.KeyStore{Hashes: map[string][]byte{}, Fail: map[string]bool{}}}
	for k := 0; k < nScopes; k++ {
		sc := scopeInfo{Name: fmt.Sprintf("scope%d", k), Key: "key-" + r.Alnum(6+r.Intn(6)) + r.PickS("", "", "$"+r.Alnum(3), "${HOME}", "%s", " ~"), Prefix: fmt.Sprintf("10.%d.0.0/16", k), Octet: k}
		s.Scopes = append(s.Scopes, sc)
		s.Cfg.Secrets = append(s.Cfg.Secrets, refsrv.Scope(sc.Name, sc.Key, sc.Prefix))
	}
	allScopes := []string{}
	for _, sc := range s.Scopes {
		allScopes = append(allScopes, sc.Name)
	}
	shellSvc := config.Service{Name: "shell", SetValues: []config.Value{{Name: "priv-lvl", Values: []string{"15"}}}}
	optSvc := config.Service{Name: "ppp", Match: []config.Value{{Name: "protocol", Values: []string{"ip"}}},
		SetValues: []config.Value{{Name: "addr-pool", Values: []string{"pool1"}, Optional: true}}}
	cmds := []config.Command{
		{Name: "show", Match: []string{"version", "ip route.*"}, Action: config.PERMIT},
		{Name: "configure", Match: []string{"terminal"}, Action: config.PERMIT},
		{Name: "reload", Action: config.DENY},
	}
	add := func(u config.User, info *userInfo) {
		u.Scopes = allScopes
		info.Name = u.Name
		info.Scopes = allScopes
		s.Cfg.Users = append(s.Cfg.Users, u)
		s.Users[u.Name] = info
	}
	pw := func() string { return "pw-" + r.Alnum(8+r.Intn(8)) }
	// 1. everything at user level
	p := pw()
	add(config.User{Name: "alice", Services: []config.Service{shellSvc, optSvc}, Commands: cmds, Authenticator: refsrv.Bcrypt(p), Accounter: refsrv.FileAccounter()},
		&userInfo{Password: p, Cred: "hash", Accounter: "file"})
	// 2. everything inherited from a group
	p = pw()
	grp := config.Group{Name: "noc", Services: []config.Service{shellSvc}, Commands: []config.Command{permitAll()}, Authenticator: refsrv.Bcrypt(p), Accounter: refsrv.FileAccounter()}
	add(config.User{Name: "bob", Groups: []config.Group{{Name: "empty"}, grp}}, &userInfo{Password: p, Cred: "hash", Accounter: "file"})
	// 3. no authenticator, no accounter, commands only
	add(config.User{Name: "carol", Commands: cmds}, &userInfo{Cred: "none", Accounter: "none"})
	// 4. hash option that is not hex
	add(config.User{Name: "dave", Authenticator: &config.Authenticator{Type: config.BCRYPT, Options: map[string]string{"hash": "zz-not-hex"}}, Accounter: refsrv.FileAccounter()},
		&userInfo{Cred: "badhex", Accounter: "file"})
	// 5. keychain path (no hash option)
	p = pw()
	s.Keys.Hashes["erin"] = refsrv.RawHash(p)
	add(config.User{Name: "erin", Commands: cmds, Authenticator: &config.Authenticator{Type: config.BCRYPT, Options: map[string]string{"group": "g"}}},
		&userInfo{Password: p, Cred: "keychain", Accounter: "none"})
	// 6. keychain path whose keychain fails
	s.Keys.Fail["frank"] = true
	add(config.User{Name: "frank", Authenticator: &config.Authenticator{Type: config.BCRYPT}}, &userInfo{Cred: "keychain-fail", Accounter: "none"})
	// 7. authenticator / accounter types nobody registered
	add(config.User{Name: "grace", Authenticator: &config.Authenticator{Type: config.SHA512, Options: map[string]string{"hash": "00"}},
		Accounter: &config.Accounter{Name: "syslog", Type: config.SYSLOG}}, &userInfo{Cred: "unregistered", Accounter: "unregistered"})
	// 8. user overriding the group's authenticator
	p = pw()
	add(config.User{Name: "heidi", Groups: []config.Group{grp}, Authenticator: refsrv.Bcrypt(p)}, &userInfo{Password: p, Cred: "hash", Accounter: "file"})
	// 9. a user whose name needs care in messages
	p = pw()
	add(config.User{Name: "per%cent %s%d", Commands: []config.Command{permitAll()}, Services: []config.Service{shellSvc}, Authenticator: refsrv.Bcrypt(p), Accounter: refsrv.FileAccounter()},
		&userInfo{Password: p, Cred: "hash", Accounter: "file"})
	// 10. a service whose configured set_values do not render to valid arguments
	// (1 byte "=", longer than 255 bytes, non-ASCII)
	badSvc := config.Service{Name: "badsvc", SetValues: []config.Value{{Name: "", Values: nil}}}
	longSvc := config.Service{Name: "longsvc", SetValues: []config.Value{{Name: "motd", Values: []string{string(gen.Fill('m', 300))}}}}
	utfSvc := config.Service{Name: "utfsvc", SetValues: []config.Value{{Name: "banner", Values: []string{"gr\u00fc\u00dfe"}}}}
	// ... and one with more set_values than a reply can carry arguments (255)
	wideSvc := config.Service{Name: "widesvc"}
	for i := 0; i < 300; i++ {
		wideSvc.SetValues = append(wideSvc.SetValues, config.Value{Name: fmt.Sprintf("attr%d", i), Values: []string{fmt.Sprint(i)}, Optional: i%2 == 0})
	}
	p = pw()
	add(config.User{Name: "ivan", Services: []config.Service{shellSvc, badSvc, longSvc, utfSvc, wideSvc}, Authenticator: refsrv.Bcrypt(p), Accounter: refsrv.FileAccounter()},
		&userInfo{Password: p, Cred: "hash", Accounter: "file"})
	// 11. two groups carry an accounter: the FIRST one wins, and it is of a type nobody registered, so
	// the user has no accounter; the authenticator comes from a third group
	p = pw()
	add(config.User{Name: "judy", Commands: cmds, Groups: []config.Group{
		{Name: "audit", Accounter: &config.Accounter{Name: "syslog", Type: config.SYSLOG}},
		{Name: "ops", Accounter: refsrv.FileAccounter()},
		{Name: "auth", Authenticator: refsrv.Bcrypt(p)}}},
		&userInfo{Password: p, Cred: "hash", Accounter: "unregistered"})
	return s
}
