package checks

import (
	"bytes"
	"fmt"
	"hash/fnv"
	"net"
	"sync"
	"verif/h/simnet"

	"verif/h/gen"
	"verif/h/mon"
	"verif/h/refsrv"
	"verif/h/rfc8907"
)

// C09 — multiplexed or concurrent sessions never influence one another
// (differential transcript monitor: the oracle is the system itself serving
// each session alone).

func init() {
	mon.Register(&mon.Check{
		ID:        "C09",
		Boost:     3,
		Batches:   func(tier string) int { return 16 },
		Run:       runC09,
		RaceAlso:  true,
		Technique: "differential transcript runtime monitor: every session script is first run alone (solo transcript = raw reply headers + de-obfuscated bodies), then 2..8 scripts run multiplexed on one connection under generated interleavings, on concurrent connections with the SAME session ids, and both; every session's transcript must equal its solo transcript byte for byte",
		Rule: "scripts: ASCII logins at every stage (user in START or CONTINUE, right/wrong/empty password, abort at each step), PAP, other START combinations, command and session authorization, accounting start/stop/watchdog, malformed packets in the clear; interleavings: seeded random merges plus ALL interleavings of 2 scripts x <= 3 packets; concurrent connections reuse identical session ids. " +
			"distinct_nontrivial = distinct interleaving hashes in which at least two sessions were open at once on one connection (also the coverage floor); classes = (mode, number of sessions, script kinds)",
		Assumptions: []string{"replies of the reference server are deterministic functions of the session (messages mention only its own session id / user), so equality with the solo transcript is exact",
			"solo transcripts are taken on a fresh server per script in half of the cases (4/5 in thorough) and on a second long-lived server instance in the others"},
		MinClasses: func(tier string) int { return 40 },
	})
}

type transcript [][]byte // per reply: header(12) || clear body

// c09Flags gives some sessions the single-connect bit (and other flag bits) on all of
// their packets; a session's flag octet is its own business and must be mirrored to it only.
var c09Flags = map[uint32]int{}

func (t transcript) equal(o transcript) bool {
	if len(t) != len(o) {
		return false
	}
	for i := range t {
		if !bytes.Equal(t[i], o[i]) {
			return false
		}
	}
	return true
}

// c09Solo runs one script alone on its own connection.
func c09Solo(ref *refsrv.Ref, key []byte, remote int, sid uint32, rcp recipe) (transcript, bool) {
	return c09SoloFrom(ref, key, simnet.RemoteFor(remote), sid, rcp)
}

// c09SoloFrom: the same from an explicit client address (several connections of one host differ in
// the port only).
func c09SoloFrom(ref *refsrv.Ref, key []byte, remote *net.TCPAddr, sid uint32, rcp recipe) (transcript, bool) {
	rc := &refConn{ref: ref, c: ref.L.Dial(remote), key: key, last: map[uint32]int{}}
	defer func() {
		if !rc.c.Closed() {
			rc.c.EOF()
		}
		ref.Net.Forget(rc.c)
	}()
	var t transcript
	for i, p := range rcp.Pkts {
		h := rfc8907.Header{Major: 0xc, Minor: p.Minor, Type: p.Type, Seq: 1 + 2*i, Flags: p.Flags | c09Flags[sid], Session: sid}
		res := rc.send(h, p.Body, true)
		if res.Err != nil {
			return nil, false
		}
		for _, rp := range res.Replies {
			t = append(t, append(append([]byte{}, rp.Raw[:12]...), rp.Clear...))
		}
		if res.State.Closed {
			break
		}
	}
	return t, true
}

func c09Recipe(r *gen.R, sc *stdCfg) recipe {
	for {
		rcp := pickRecipe(r, sc)
		// garbage under the key may close the connection (key-mismatch detector): that
		// ends every multiplexed session and is C19's subject, not isolation
		if rcp.Name == "garbage-under-the-key" || rcp.Name == "ascii-64KiB-user" {
			continue
		}
		return rcp
	}
}

func allInterleavings(lens []int) [][]int {
	var out [][]int
	var rec func(left []int, cur []int)
	rec = func(left []int, cur []int) {
		done := true
		for i, l := range left {
			if l > 0 {
				done = false
				left[i]--
				rec(left, append(cur, i))
				left[i]++
			}
		}
		if done {
			out = append(out, append([]int{}, cur...))
		}
	}
	rec(append([]int{}, lens...), nil)
	return out
}

func orderHash(kinds []string, order []int) string {
	h := fnv.New64a()
	for _, k := range kinds {
		h.Write([]byte(k))
		h.Write([]byte{0})
	}
	for _, o := range order {
		h.Write([]byte{byte(o)})
	}
	return fmt.Sprintf("%x", h.Sum64())
}

func runC09(b *mon.B) {
	r := gen.New(uint64(b.Seed), 0xC09, uint64(b.Index))
	sc := richConfig(r, 2) // two scopes with the same users: 10.0/16 under one key, 10.1/16 under another
	key := []byte(sc.Scopes[0].Key)
	key1 := []byte(sc.Scopes[1].Key)
	soloRef, err := refsrv.Start(sc.Cfg, refsrv.Options{Keys: sc.Keys, ViaYAML: true})
	if err != nil {
		b.Inconclusive("configuration did not load: %v", err)
		return
	}
	defer soloRef.Close()
	muxRef, err := refsrv.Start(sc.Cfg, refsrv.Options{Keys: sc.Keys, ViaYAML: true})
	if err != nil {
		b.Inconclusive("configuration did not load: %v", err)
		return
	}
	defer muxRef.Close()
	soloRef.Net.SetKeepLog(false)
	muxRef.Net.SetKeepLog(false)
	caseNo := 0
	overlapHashes := map[string]bool{}
	remote := 0

	runCase := func(mode string, recs []recipe, sids []uint32, order []int) {
		caseNo++
		if !b.Want(caseNo) {
			return
		}
		b.Eval(1)
		n := len(recs)
		kinds := make([]string, n)
		for i, rc := range recs {
			kinds[i] = rc.Name
		}
		// solo transcripts
		solo := make([]transcript, n)
		for i := range recs {
			remote++
			// "the only session the server ever sees": a fresh server per solo script (every
			// other case; the remaining cases share one solo server to keep a long-lived
			// instance in the comparison as well)
			ref := soloRef
			var fresh *refsrv.Ref
			if caseNo%2 == 0 || b.Thorough() && caseNo%5 != 0 {
				if f, err := refsrv.Start(sc.Cfg, refsrv.Options{Keys: sc.Keys}); err == nil {
					f.Net.SetKeepLog(false)
					fresh, ref = f, f
				}
			}
			t, ok := c09Solo(ref, key, remote%60000+1, sids[i], recs[i])
			if fresh != nil {
				fresh.Close()
			}
			if !ok {
				b.Inconclusive("watchdog in a solo run")
				return
			}
			solo[i] = t
		}
		got := make([]transcript, n)
		overlap := false
		switch mode {
		case "multiplexed":
			remote++
			rc := newRefConn(muxRef, remote%60000+1, key)
			pos := make([]int, n)
			for _, si := range order {
				for j := range recs {
					if j != si && pos[j] > 0 && pos[j] < len(recs[j].Pkts) {
						overlap = true
					}
				}
				p := recs[si].Pkts[pos[si]]
				h := rfc8907.Header{Major: 0xc, Minor: p.Minor, Type: p.Type, Seq: 1 + 2*pos[si], Flags: p.Flags | c09Flags[sids[si]], Session: sids[si]}
				pos[si]++
				res := rc.send(h, p.Body, true)
				if res.Err != nil {
					b.Inconclusive("watchdog in a multiplexed run")
					return
				}
				for _, rp := range res.Replies {
					for j := range sids {
						if rp.Header.Session == sids[j] {
							got[j] = append(got[j], append(append([]byte{}, rp.Raw[:12]...), rp.Clear...))
							break
						}
					}
				}
				if res.State.Closed {
					break
				}
			}
			if !rc.c.Closed() {
				rc.c.EOF()
			}
			muxRef.Net.Forget(rc.c)
		case "concurrent-connections":
			// every script on its own connection at the same time; session ids may be identical
			var wg sync.WaitGroup
			okAll := true
			var mu sync.Mutex
			base := remote
			remote += n
			sameHost := caseNo%2 == 0
			for i := range recs {
				wg.Add(1)
				go func(i int) {
					defer wg.Done()
					// odd scripts connect from the second scope (its own key): connections that are
					// set up at the same instant are bound each by its own address
					k, at := key, (base+i+1)%60000+1
					if i%2 == 1 {
						k, at = key1, 1<<16|at
					}
					addr := simnet.RemoteFor(at)
					if sameHost {
						// all connections of a scope come from ONE host (a device with several
						// connections): same address, different ports
						addr = simnet.RemoteFor(at&^0xffff | 7)
						addr.Port = 20000 + i
					}
					t, ok := c09SoloFrom(muxRef, k, addr, sids[i], recs[i])
					mu.Lock()
					got[i] = t
					okAll = okAll && ok
					mu.Unlock()
				}(i)
			}
			wg.Wait()
			if !okAll {
				b.Inconclusive("watchdog in a concurrent run")
				return
			}
			overlap = n > 1
		}
		hsh := orderHash(kinds, order)
		if overlap {
			overlapHashes[mode+hsh] = true
		}
		b.Class("%s/n=%d/%s+%s", mode, n, kinds[0], kinds[len(kinds)-1])
		for i := range recs {
			b.Count("session_transcripts_compared", 1)
			if !got[i].equal(solo[i]) {
				render := func(t transcript) []string {
					var out []string
					for _, x := range t {
						out = append(out, hexs(x))
					}
					return out
				}
				b.Violate(caseNo, fmt.Sprintf("C09/transcript-differs/%s/%s", mode, recs[i].Kind),
					fmt.Sprintf("session %d (%s, user %q) got different replies when run %s with %d other sessions than when run alone", i, recs[i].Name, clip(recs[i].User), mode, n-1),
					map[string]interface{}{"scripts": kinds, "interleaving": order, "session_ids": sids, "solo": render(solo[i]), "observed": render(got[i])})
				return
			}
		}
		if caseNo%173 == 0 {
			b.Sample(mode, map[string]interface{}{"scripts": kinds, "interleaving": order, "same_session_ids": mode == "concurrent-connections"})
		}
	}

	// ---- all interleavings of 2 scripts x <= 3 packets (a few pairs per batch)
	for pair := 0; pair < b.N(3, 40); pair++ {
		a, c := c09Recipe(r, sc), c09Recipe(r, sc)
		if r.Bool() { // make sure multi-packet scripts are well represented
			u := []string{"alice", "bob", "erin", "nobody"}[r.Intn(4)]
			pw := "x"
			if ui := sc.Users[u]; ui != nil && r.Bool() {
				pw = ui.Password
			}
			a = asciiLogin(u, false, pw, r.Pick(0, 0, 2, 3))
		}
		if r.Bool() {
			u := []string{"heidi", "alice", "carol", "ghost"}[r.Intn(4)]
			pw := "y"
			if ui := sc.Users[u]; ui != nil && r.Bool() {
				pw = ui.Password
			}
			c = asciiLogin(u, r.Bool(), pw, 0)
		}
		sids := []uint32{r.U32(), r.U32()}
		for _, order := range allInterleavings([]int{len(a.Pkts), len(c.Pkts)}) {
			runCase("multiplexed", []recipe{a, c}, sids, order)
		}
	}
	// ---- random sets of 2..8 scripts
	for k := 0; k < b.N(110, 6000); k++ {
		n := 2 + r.Intn(7)
		recs := make([]recipe, n)
		sids := make([]uint32, n)
		for k2 := range c09Flags {
			delete(c09Flags, k2)
		}
		for i := range recs {
			recs[i] = c09Recipe(r, sc)
			sids[i] = r.U32()
			if k%2 == 0 {
				c09Flags[sids[i]] = r.Pick(0, 0, 4, 4, 0x10)
			}
		}
		order := interleave(r, recs)
		runCase("multiplexed", recs, sids, order)
		if k%3 == 0 {
			same := r.U32()
			for k2 := range c09Flags {
				delete(c09Flags, k2)
			}
			for i := range sids {
				sids[i] = same // session ids differ only by connection
			}
			runCase("concurrent-connections", recs, sids, nil)
		}
	}
	// ---- one login interrupted by MANY other sessions that stay open on the same connection
	for k2 := range c09Flags {
		delete(c09Flags, k2)
	}
	for rep := 0; rep < b.N1(2, 12); rep++ {
		n := r.Pick(63, 64, 65, 130, 200)
		u := []string{"alice", "bob", "heidi"}[r.Intn(3)]
		victim := asciiLogin(u, false, sc.Users[u].Password, 0)
		recs := []recipe{victim}
		sids := []uint32{r.U32()}
		for i := 0; i < n; i++ {
			recs = append(recs, asciiLogin("erin", false, "nope", 0))
			sids = append(sids, r.U32())
		}
		order := []int{0}
		for i := 1; i <= n; i++ {
			order = append(order, i)
		}
		order = append(order, 0, 0)
		for i := 1; i <= n; i++ {
			order = append(order, i, i)
		}
		runCase("multiplexed", recs, sids, order)
	}
	for h := range overlapHashes {
		b.Class("overlap:" + h)
	}
	b.Count("distinct_interleavings_with_two_sessions_open", len(overlapHashes))
}
