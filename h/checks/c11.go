package checks

import (
	"fmt"
	"regexp"
	"sort"
	"strings"

	"github.com/facebookincubator/tacquito/cmds/server/config"
	"verif/h/gen"
	"verif/h/mon"
	"verif/h/refsrv"
	"verif/h/rfc8907"
)

// C11 — authorization obeys policy: first match, whole-string match, default
// deny (multi-reading reference evaluator).

func init() {
	mon.Register(&mon.Check{
		ID:        "C11",
		Batches:   func(tier string) int { return 16 },
		Run:       runC11,
		Technique: "reference-evaluator runtime monitor: an independent evaluator of the documented semantics (first applying rule, user rules before group rules, whole-string pattern match, default deny; services selected by name and match conditions) judges status and argument list of every authorization reply of the reference server; where the documentation leaves a choice open the evaluator computes every plausible reading and reports only answers justified by none",
		Rule: "policies: ordered permit/deny rules with patterns from a regex grammar (literals, a|b, ^a|b, a|b$, (a|b), a.*, escaped metacharacters, (?i), (?m)..$, classes, invalid patterns), wildcard rules, user/group layering, services with/without match conditions and optional values, several scopes; requests: argument lists in any order, = and * separators, <cr> last / in the middle / upper-case, whitespace and control characters, argument strings separating full from partial matches (prefix+pattern, pattern+suffix, 'x ; reload', embedded newlines). " +
			"A class is (path, first-applying-rule kind or service-set size, pattern form, observed status); distinct_nontrivial counts classes",
		Assumptions: []string{"Go's regexp package is a trusted primitive",
			"one direction on the command path, as stated: an observed grant must be justified by a permit as first applying rule; FAIL is always acceptable there",
			"session path is judged exactly only for canonical requests/configurations (single service and cmd attribute, no whitespace around tokens, single-valued match conditions, renderable set_values); the rest is counted as unjudged"},
		MinClasses: func(tier string) int { return 80 },
	})
}

var c11Words = []string{"terminal", "exclusive", "batch", "version", "reload", "private", "ip", "route", "interface", "running-config", "run", "t", "int", "counters", "vrf=mgmt", "src*any"}
var c11Cmds = []string{"show", "configure", "reload", "write", "clear", "|"}

type patForm struct {
	Name string
	Make func(r *gen.R) string
}

func w(r *gen.R) string { return c11Words[r.Intn(len(c11Words))] }

var c11PatForms = []patForm{
	{"literal", func(r *gen.R) string { return w(r) }},
	{"alt", func(r *gen.R) string { return w(r) + "|" + w(r) }},
	{"^alt", func(r *gen.R) string { return "^" + w(r) + "|" + w(r) }},
	{"alt$", func(r *gen.R) string { return w(r) + "|" + w(r) + "$" }},
	{"^alt$", func(r *gen.R) string { return "^" + w(r) + "|" + w(r) + "$" }},
	{"(alt)", func(r *gen.R) string { return "(" + w(r) + "|" + w(r) + ")" }},
	{"^(alt)$", func(r *gen.R) string { return "^(" + w(r) + "|" + w(r) + ")$" }},
	{"prefix.*", func(r *gen.R) string { return w(r) + ".*" }},
	{".*", func(r *gen.R) string { return ".*" }},
	{"escaped", func(r *gen.R) string { return w(r) + `\|` + w(r) }},
	{"escaped-dollar", func(r *gen.R) string { return w(r) + `\$` }},
	{"(?i)", func(r *gen.R) string { return "(?i)" + strings.ToUpper(w(r)) }},
	{"(?m)x$", func(r *gen.R) string { return "(?m)" + w(r) + "$" }},
	{"(?m)^x", func(r *gen.R) string { return "(?m)^" + w(r) }},
	{"class", func(r *gen.R) string { return w(r) + " [a-z0-9./]+" }},
	{"two-words", func(r *gen.R) string { return w(r) + " " + w(r) }},
	{"prefix-alt", func(r *gen.R) string { // one branch is a proper prefix of the other, shorter first
		pairs := [][2]string{{"run", "running-config"}, {"t", "terminal"}, {"int", "interface"}, {"ip", "ip route"}, {"counters", "counters all"}}
		p := pairs[r.Intn(len(pairs))]
		return p[0] + "|" + p[1]
	}},
	{"nongreedy", func(r *gen.R) string { return w(r) + ".*?" }},
	{"nongreedy-mid", func(r *gen.R) string { return w(r) + " .+? " + w(r) }},
	{"optional-suffix", func(r *gen.R) string { return w(r) + "( all)??" }},
	{"invalid(", func(r *gen.R) string { return "(" + w(r) }},
	{"invalid)(", func(r *gen.R) string { return w(r) + ")|(" + w(r) }},
	{"invalid[", func(r *gen.R) string { return "[" + w(r) }},
	{"padded", func(r *gen.R) string { return "  " + w(r) + " " }},
	{"empty", func(r *gen.R) string { return "" }},
	{"alt-empty-branch", func(r *gen.R) string { return w(r) + "|" }},
	{"$-in-class", func(r *gen.R) string { return w(r) + "[$]" }},
}

type c11Rule struct {
	C     config.Command
	Forms []string
}

// ruleApplies: does the rule apply to (cmd, argString)? wildcard / name and
// no patterns / one pattern matching the ENTIRE argument string.
func ruleApplies(c config.Command, cmd, argStr string) bool {
	name := strings.TrimSpace(c.Name)
	if name == "*" {
		return true
	}
	if name != cmd {
		return false
	}
	if len(c.Match) == 0 {
		return true
	}
	for _, p := range c.Match {
		p = strings.TrimSpace(p)
		if p == "" {
			continue
		}
		if _, err := regexp.Compile(p); err != nil {
			continue // a pattern that does not compile on its own matches nothing
		}
		re, err := regexp.Compile(`\A(?:` + p + `)\z`)
		if err != nil {
			continue
		}
		if re.MatchString(argStr) {
			return true
		}
	}
	return false
}

// firstApplying returns the index of the first applying rule (-1: none).
func firstApplying(rules []config.Command, cmd, argStr string) int {
	for i, c := range rules {
		if ruleApplies(c, cmd, argStr) {
			return i
		}
	}
	return -1
}

type asv struct{ A, S, V string }

func splitASV(arg string, trim bool) asv {
	if trim {
		arg = strings.TrimSpace(arg)
	}
	i := strings.IndexAny(arg, "=*")
	if i < 0 {
		return asv{}
	}
	return asv{arg[:i], string(arg[i]), arg[i+1:]}
}

// argStrings returns the argument string under every plausible reading:
// <cr> dropped when it is the last argument / the last cmd-arg; values
// trimmed or not.
func argStrings(args []string) []string {
	out := map[string]bool{}
	for _, trim := range []bool{true, false} {
		var vals []string
		var idxs []int
		for i, a := range args {
			x := splitASV(a, trim)
			if x.A == "cmd-arg" {
				vals = append(vals, x.V)
				idxs = append(idxs, i)
			}
		}
		out[strings.Join(vals, " ")] = true
		if n := len(vals); n > 0 && strings.ToLower(strings.TrimSpace(vals[n-1])) == "<cr>" {
			if idxs[n-1] == len(args)-1 {
				// last argument overall: both readings drop it
				delete(out, strings.Join(vals, " "))
			}
			out[strings.Join(vals[:n-1], " ")] = true
		}
	}
	var res []string
	for k := range out {
		res = append(res, k)
	}
	sort.Strings(res)
	return res
}

type c11User struct {
	Name     string
	Rules    []config.Command // user rules then group rules, in order
	RuleForm []string
	Services []config.Service // user services then group services
	U        config.User
	Canon    bool
}

func c11GenRule(r *gen.R) (config.Command, string) {
	c := config.Command{Action: config.Action(r.Pick(1, 2, 2, 1, 0, 3))}
	form := "no-patterns"
	switch r.Intn(8) {
	case 0:
		c.Name = "*"
		form = "wildcard"
	default:
		c.Name = c11Cmds[r.Intn(len(c11Cmds))]
		if r.Chance(1, 12) {
			c.Name = " " + c.Name + " "
		}
		if r.Chance(4, 5) {
			n := 1 + r.Intn(3)
			var fs []string
			for i := 0; i < n; i++ {
				pf := c11PatForms[r.Intn(len(c11PatForms))]
				c.Match = append(c.Match, pf.Make(r))
				fs = append(fs, pf.Name)
			}
			form = strings.Join(fs, ",")
		}
	}
	return c, form
}

var c11SvcNames = []string{"shell", "ppp", "exec", "junos-exec", "raccess"}

func c11GenService(r *gen.R, scope string) config.Service {
	s := config.Service{Name: c11SvcNames[r.Intn(len(c11SvcNames))]}
	switch r.Intn(4) {
	case 0:
		s.Match = []config.Value{{Name: "protocol", Values: []string{r.PickS("ip", "lcp")}}}
	case 1:
		s.Match = []config.Value{{Name: "scope", Values: []string{r.PickS(scope, "edge", "elsewhere")}}}
	}
	for i, n := 0, 1+r.Intn(3); i < n; i++ {
		s.SetValues = append(s.SetValues, config.Value{Name: r.PickS("priv-lvl", "addr-pool", "shell:roles", "idletime", "acl"), Values: []string{r.PickS("15", "1", "admin", "pool-a", "network-admin vdc-admin")}, Optional: r.Chance(1, 3)})
	}
	return s
}

func c11Config(r *gen.R, nUsers int) (config.ServerConfig, []*c11User, []scopeInfo) {
	sc := scopeInfo{Name: "lab", Key: "k" + r.Alnum(8), Prefix: "10.0.0.0/16"}
	sc2 := scopeInfo{Name: "edge", Key: "e" + r.Alnum(8), Prefix: "10.1.0.0/16", Octet: 1}
	cfg := config.ServerConfig{Secrets: []config.SecretConfig{refsrv.Scope(sc.Name, sc.Key, sc.Prefix), refsrv.Scope(sc2.Name, sc2.Key, sc2.Prefix)}}
	var users []*c11User
	for i := 0; i < nUsers; i++ {
		u := config.User{Name: fmt.Sprintf("u%d", i), Scopes: []string{sc.Name}}
		if i%2 == 1 {
			u.Scopes = []string{sc.Name, sc2.Name} // several scopes, in the order of the secrets
		}
		if i%8 == 7 {
			u.Scopes = []string{sc2.Name, sc.Name}
		}
		cu := &c11User{Name: u.Name, Canon: true}
		var forms []string
		for k, n := 0, r.Intn(5); k < n; k++ {
			c, f := c11GenRule(r)
			u.Commands = append(u.Commands, c)
			forms = append(forms, f)
		}
		for k, n := 0, r.Intn(3); k < n; k++ {
			u.Services = append(u.Services, c11GenService(r, sc.Name))
		}
		for g, ng := 0, r.Intn(3); g < ng; g++ {
			grp := config.Group{Name: fmt.Sprintf("g%d", g)}
			for k, n := 0, r.Intn(4); k < n; k++ {
				c, f := c11GenRule(r)
				grp.Commands = append(grp.Commands, c)
				forms = append(forms, f)
			}
			for k, n := 0, r.Intn(2); k < n; k++ {
				grp.Services = append(grp.Services, c11GenService(r, sc.Name))
			}
			u.Groups = append(u.Groups, grp)
		}
		cu.Rules = append(cu.Rules, u.Commands...)
		cu.Services = append(cu.Services, u.Services...)
		for _, g := range u.Groups {
			cu.Rules = append(cu.Rules, g.Commands...)
			cu.Services = append(cu.Services, g.Services...)
		}
		cu.RuleForm = forms
		cu.U = u
		cfg.Users = append(cfg.Users, u)
		users = append(users, cu)
	}
	return cfg, users, []scopeInfo{sc, sc2}
}

// sessionExpect computes the expected argument set of a canonical session request.
func sessionExpect(cu *c11User, scope string, args []string) (set []string, anyOptional bool, starUsed bool) {
	all := append(append([]string{}, args...), "scope="+scope)
	kv := map[string]string{}
	for _, a := range all {
		x := splitASV(a, true)
		kv[x.A] = x.V
	}
	seen := map[string]bool{}
	for _, s := range cu.Services {
		name := strings.TrimSpace(s.Name)
		selected := false
		for _, a := range all {
			x := splitASV(a, true)
			if x.A == name || x.V == name {
				selected = true
				if x.A != "cmd" && x.S == "*" {
					starUsed = true
				}
			}
		}
		if !selected {
			continue
		}
		ok := true
		for _, m := range s.Match {
			v, present := kv[m.Name]
			if !present {
				ok = false
				break
			}
			for _, want := range m.Values {
				if v != want {
					ok = false
				}
			}
		}
		if !ok {
			continue
		}
		for _, v := range s.SetValues {
			sep := "="
			if v.Optional {
				sep = "*"
				anyOptional = true
			}
			rendered := strings.TrimSpace(v.Name + sep + strings.Join(v.Values, " "))
			if !seen[rendered] {
				seen[rendered] = true
				set = append(set, rendered)
			}
		}
	}
	sort.Strings(set)
	return
}

func c11CmdArgs(r *gen.R, cu *c11User) (string, []string, string) {
	cmd := c11Cmds[r.Intn(len(c11Cmds))]
	// aim at the user's own patterns: derive argument strings from them
	var base string
	shape := "random"
	var pats []string
	for _, c := range cu.Rules {
		pats = append(pats, c.Match...)
		if r.Chance(1, 3) && strings.TrimSpace(c.Name) != "*" {
			cmd = strings.TrimSpace(c.Name)
		}
	}
	words := func(n int) string {
		var ws []string
		for i := 0; i < n; i++ {
			ws = append(ws, w(r))
		}
		return strings.Join(ws, " ")
	}
	if len(pats) > 0 && r.Chance(3, 4) {
		p := strings.TrimSpace(pats[r.Intn(len(pats))])
		// strip regex syntax to get a string in the language's neighbourhood
		lit := p
		for _, x := range []string{"(?i)", "(?m)", "^", "$", "(", ")", ".*", `\`, "[a-z0-9./]+", "[", "]"} {
			lit = strings.ReplaceAll(lit, x, "")
		}
		branches := strings.Split(lit, "|")
		br := strings.TrimSpace(branches[r.Intn(len(branches))])
		switch r.Intn(10) {
		case 8:
			base, shape = br+" all", "branch+all"
		case 9:
			longer := map[string]string{"run": "running-config", "t": "terminal", "int": "interface", "ip": "ip route", "counters": "counters all"}
			if l, ok := longer[br]; ok {
				br = l
			}
			base, shape = br, "longer-alternative"
		case 0:
			base, shape = br, "exact-branch"
		case 1:
			base, shape = br+" ; reload", "branch+suffix"
		case 2:
			base, shape = "x "+br, "prefix+branch"
		case 3:
			base, shape = "x "+br+" y", "prefix+branch+suffix"
		case 4:
			base, shape = br+"\n"+words(1), "branch+newline+word"
		case 5:
			base, shape = words(1)+"\n"+br, "word+newline+branch"
		case 6:
			base, shape = strings.ToUpper(br), "upper-case-branch"
		default:
			base, shape = br+" "+words(1), "branch+word"
		}
	} else {
		base = words(r.Intn(3))
	}
	var parts []string
	if base != "" {
		// keep newline-bearing values in one cmd-arg, split the rest on spaces
		if strings.Contains(base, "\n") {
			parts = []string{base}
		} else {
			parts = strings.Split(base, " ")
		}
	}
	return cmd, parts, shape
}

func runC11(b *mon.B) {
	r := gen.New(uint64(b.Seed), 0xC11, uint64(b.Index))
	caseNo := 0
	nCfg := b.N(3, 40)
	perCfg := b.NQ(1300)
	for ci := 0; ci < nCfg; ci++ {
		cfg, users, scs := c11Config(r, 24)
		sc := scs[0]
		ref, err := refsrv.Start(cfg, refsrv.Options{ViaYAML: ci%2 == 0})
		if err != nil {
			b.Inconclusive("configuration did not load: %v", err)
			continue
		}
		ref.Net.SetKeepLog(false)
		rcs := []*refConn{newRefConn(ref, 1, []byte(scs[0].Key)), newRefConn(ref, 1<<16|1, []byte(scs[1].Key))}
		rc := rcs[0]
		sid := uint32(0)
		for k := 0; k < perCfg; k++ {
			caseNo++
			cu := users[r.Intn(len(users))]
			userName := cu.Name
			// the connection's scope: one of the scopes the user is assigned to
			scopeIdx := 0
			if len(cu.U.Scopes) > 1 && r.Bool() {
				scopeIdx = 1
			}
			if cu.U.Scopes[scopeIdx] == "edge" {
				sc, rc = scs[1], rcs[1]
			} else {
				sc, rc = scs[0], rcs[0]
			}
			kind := r.Intn(10)
			var args []string
			shape := ""
			path := "command"
			canonical := true
			switch {
			case kind < 6: // command request
				cmd, parts, sh := c11CmdArgs(r, cu)
				shape = sh
				args = []string{"service=shell", "cmd=" + cmd}
				for _, p := range parts {
					if p == "" {
						continue
					}
					// the optional separator now and then: the split is at the FIRST of '=' and '*'
					// whatever the value contains
					args = append(args, "cmd-arg"+r.PickS("=", "=", "=", "*")+p)
				}
				if r.Chance(1, 8) {
					args[0] = "service*shell"
				}
				if r.Chance(1, 8) {
					args[1] = "cmd*" + cmd
				}
				switch r.Intn(8) {
				case 0:
					args = append(args, "cmd-arg=<cr>")
				case 1:
					args = append(args, "cmd-arg=<CR>")
				case 2: // <cr> as last cmd-arg but not last argument
					args = append(args, "cmd-arg=<cr>", "priv-lvl=1")
					canonical = false
				case 3: // <cr> in the middle
					if len(args) > 2 {
						args = append(args[:3], append([]string{"cmd-arg=<cr>"}, args[3:]...)...)
					}
				}
				if r.Chance(1, 6) { // argument order shuffled
					p := r.Perm(len(args))
					sh2 := make([]string, len(args))
					for i, j := range p {
						sh2[i] = args[j]
					}
					args = sh2
				}
				if r.Chance(1, 10) { // whitespace inside values
					args = append(args, "cmd-arg= "+w(r)+" ")
					canonical = false
				}
			case kind < 9: // session request
				path = "session"
				svc := c11SvcNames[r.Intn(len(c11SvcNames))]
				sep := "="
				if r.Chance(1, 4) {
					sep = "*"
				}
				args = []string{"service" + sep + svc}
				if r.Bool() {
					args = append(args, "protocol="+r.PickS("ip", "lcp"))
				}
				if r.Chance(1, 3) {
					args = append(args, r.PickS("cmd=", "cmd*"))
				}
				if r.Chance(1, 3) {
					args = append(args, r.PickS("shell:roles*x", "priv-lvl=1", "foo=bar"))
				}
				if r.Chance(1, 4) {
					// a client-supplied scope attribute must not replace the connection's scope
					args = append(args, "scope"+r.PickS("=", "*")+r.PickS("elsewhere", "lab", "prod"))
				}
				p := r.Perm(len(args))
				sh2 := make([]string, len(args))
				for i, j := range p {
					sh2[i] = args[j]
				}
				args = sh2
				if r.Chance(1, 10) {
					args = append(args, "service="+c11SvcNames[r.Intn(len(c11SvcNames))]) // second service attribute
					canonical = false
				}
			default: // unknown user / undecodable
				path = "unknown-user"
				userName = "ghost" + r.Alnum(3)
				args = []string{"service=shell", "cmd=show"}
			}
			for i, a := range args { // wire limits
				if len(a) > 255 {
					args[i] = a[:255]
				}
				if len(a) < 2 {
					args[i] = a + "=="
				}
			}
			if !b.Want(caseNo) {
				continue
			}
			sid++
			body := bAuthorRequest(6, r.Intn(16), 1, 1, userName, "tty", "192.0.2.1", args...)
			fl := 0
			if path == "unknown-user" && r.Bool() {
				body, fl, path = r.Bytes(r.Intn(30)), 1, "undecodable"
			}
			h := rfc8907.Header{Major: 0xc, Minor: 0, Type: 2, Seq: 1, Flags: fl, Session: sid}
			res := rc.send(h, body, true)
			if res.Err != nil || res.State.Closed {
				if res.Err != nil {
					b.Inconclusive("watchdog")
				}
				rc = newRefConn(ref, sc.Octet<<16|(k%60000+2), []byte(sc.Key))
				rcs[sc.Octet] = rc
				continue
			}
			b.Eval(1)
			if len(res.Replies) != 1 || res.Replies[0].Value == nil {
				continue // C07's business
			}
			rp := res.Replies[0]
			status := rp.status()
			granted := status == 1 || status == 2
			var gotArgs []string
			for _, a := range rp.Value.Args {
				gotArgs = append(gotArgs, string(a))
			}
			wit := func() map[string]interface{} {
				m := map[string]interface{}{"user": userName, "request_args": args, "reply_status": fmt.Sprintf("%#x", status), "reply_args": gotArgs, "path": path, "via_yaml": ci%2 == 0}
				if path == "command" {
					var rules []string
					for _, c := range cu.Rules {
						rules = append(rules, fmt.Sprintf("%s %q action=%d", c.Name, c.Match, c.Action))
					}
					m["rules_in_order"] = rules
				}
				return m
			}
			switch path {
			case "unknown-user", "undecodable":
				b.Class("%s/status%#x", path, status)
				if granted {
					b.Violate(caseNo, "C11/granted/"+path, fmt.Sprintf("%s request was granted (status %#x)", path, status), wit())
				}
			case "command":
				// which rule decides, under every reading of the argument string
				cmdVals := map[string]bool{}
				for _, a := range args {
					if x := splitASV(a, true); x.A == "cmd" {
						cmdVals[x.V] = true
						break
					}
				}
				justified := false
				decided := "none"
				form := "none"
				for cmd := range cmdVals {
					for _, as := range argStrings(args) {
						i := firstApplying(cu.Rules, cmd, as)
						if i >= 0 {
							if cu.Rules[i].Action == config.PERMIT {
								justified = true
								decided = "permit"
							} else if decided == "none" {
								decided = "deny"
							}
							if i < len(cu.RuleForm) {
								form = cu.RuleForm[i]
							}
						}
					}
				}
				b.Class("command/first=%s/form=%s/%s/granted=%v", decided, form, shape, granted)
				if granted && len(gotArgs) == 0 && !justified {
					b.Violate(caseNo, "C11/command-granted-without-permit/first-applying-rule-"+decided, fmt.Sprintf("command authorization granted although the first applying rule is %s (argument strings considered: %q)", decided, argStrings(args)), wit())
				}
				if granted && justified {
					b.Count("grants_justified", 1)
				}
				if !granted && justified {
					b.Count("info_evaluator_would_permit_code_denied", 1)
				}
			case "session":
				isCmd := false
				for _, a := range args {
					if x := splitASV(a, true); x.A == "cmd" && x.S == "=" && x.V != "" {
						isCmd = true
					}
				}
				if !canonical || isCmd {
					b.Class("session/unjudged")
					b.Count("session_unjudged", 1)
					if granted && len(gotArgs) == 0 {
						b.Violate(caseNo, "C11/session-granted-without-values", "session authorization granted without any value", wit())
					}
					continue
				}
				want, anyOpt, star := sessionExpect(cu, sc.Name, args)
				got := append([]string{}, gotArgs...)
				for i := range got {
					got[i] = strings.TrimSpace(got[i])
				}
				sort.Strings(got)
				got = dedupe(got)
				b.Class("session/values=%d/opt=%v/star=%v/status%#x", len(want), anyOpt, star, status)
				if len(want) == 0 {
					if granted {
						b.Violate(caseNo, "C11/session-granted-no-matching-service", fmt.Sprintf("session authorization granted %q although no service's name and match conditions are satisfied", gotArgs), wit())
					}
					continue
				}
				if !granted {
					d := wit()
					d["expected_values"] = want
					b.Violate(caseNo, "C11/session-denied-with-matching-service", fmt.Sprintf("session authorization answered %#x although services match (expected values %q)", status, want), d)
					continue
				}
				if strings.Join(got, "\x00") != strings.Join(want, "\x00") {
					d := wit()
					d["expected_values"] = want
					b.Violate(caseNo, "C11/session-values-differ", fmt.Sprintf("session authorization returned %q, the configured values of the matching services are %q", got, want), d)
					continue
				}
				wantStatus := 1
				if anyOpt {
					wantStatus = 2
				}
				if status != wantStatus && !(star && !anyOpt) {
					b.Violate(caseNo, "C11/session-add-vs-replace", fmt.Sprintf("status %#x, expected %#x by optionality of the returned values", status, wantStatus), wit())
					continue
				}
				b.Count("session_replies_exact", 1)
			}
			if k%997 == 0 {
				b.Sample(path, wit())
			}
		}
		for _, x := range rcs {
			x.c.EOF()
		}
		ref.Close()
	}
}

func dedupe(s []string) []string {
	var out []string
	for i, x := range s {
		if i == 0 || x != s[i-1] {
			out = append(out, x)
		}
	}
	return out
}
