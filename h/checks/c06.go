package checks

import (
	"bytes"
	"fmt"

	tq "github.com/facebookincubator/tacquito"
	"verif/h/gen"
	"verif/h/mon"
	"verif/h/refsrv"
	"verif/h/rfc8907"
	"verif/h/simnet"
)

// C06 — replies mirror the request (raw-header monitor on the bytes the
// server writes).

func init() {
	mon.Register(&mon.Check{
		ID:        "C06",
		Boost:     4,
		Batches:   func(tier string) int { return 16 },
		Run:       runC06,
		Technique: "raw-header runtime monitor: requests with every header are sent to the real server loop in lock-step over a scripted connection; the reply bytes are re-framed and compared octet by octet with the header the RFC demands and with the reference pad",
		Rule: "requests: 3 types x 2 minor versions x all 256 flag octets x every odd sequence number 1..255 (the full 196608-header cross product in both tiers) x session ids {0,1,2^32-1,0x01020304,random}; replies of every body type incl. RESTART and raw bodies of 0..65536 and >65536 bytes; one exchange per batch walks a single session 1,3,..,255. " +
			"A class is (type, minor, flag-bit pattern (unencrypted,single-connect,other), seq bucket, reply kind); distinct_nontrivial counts classes",
		Assumptions: []string{"scope: replies sent with Reply/ReplyWithContext (Response.Write hands the handler the whole header)"},
		MinClasses:  func(tier string) int { return 80 },
	})
}

type replyKind struct {
	Name    string
	Make    func(r *gen.R) tq.EncoderDecoder
	Restart bool
	TooBig  bool
}

var replyKinds = []replyKind{
	{Name: "authen-reply", Make: func(r *gen.R) tq.EncoderDecoder {
		return tq.NewAuthenReply(tq.SetAuthenReplyStatus(tq.AuthenStatus(r.Pick(1, 2, 3, 4, 5, 7))), tq.SetAuthenReplyServerMsg(string(r.Printable(r.Intn(40)))))
	}},
	{Name: "authen-restart", Restart: true, Make: func(r *gen.R) tq.EncoderDecoder {
		return tq.NewAuthenReply(tq.SetAuthenReplyStatus(tq.AuthenStatusRestart), tq.SetAuthenReplyServerMsg("restart"))
	}},
	{Name: "author-reply", Make: func(r *gen.R) tq.EncoderDecoder {
		return tq.NewAuthorReply(tq.SetAuthorReplyStatus(tq.AuthorStatusPassAdd), tq.SetAuthorReplyArgs("priv-lvl=15", "a*"+string(r.Printable(r.Intn(30)))))
	}},
	{Name: "acct-reply", Make: func(r *gen.R) tq.EncoderDecoder {
		return tq.NewAcctReply(tq.SetAcctReplyStatus(tq.AcctReplyStatusSuccess), tq.SetAcctReplyServerMsg(string(r.Printable(r.Intn(60)))))
	}},
	{Name: "raw-empty", Make: func(r *gen.R) tq.EncoderDecoder { return &rawBody{B: []byte{}} }},
	{Name: "raw-small", Make: func(r *gen.R) tq.EncoderDecoder { return &rawBody{B: r.Bytes(1 + r.Intn(48))} }},
	{Name: "raw-16k", Make: func(r *gen.R) tq.EncoderDecoder { return &rawBody{B: r.Bytes(16*(1+r.Intn(64)) + r.Pick(-1, 0, 1))} }},
	{Name: "raw-65535", Make: func(r *gen.R) tq.EncoderDecoder { return &rawBody{B: r.Bytes(65535)} }},
	{Name: "raw-65536", Make: func(r *gen.R) tq.EncoderDecoder { return &rawBody{B: r.Bytes(65536)} }},
	{Name: "raw-65537", TooBig: true, Make: func(r *gen.R) tq.EncoderDecoder { return &rawBody{B: r.Bytes(65537)} }},
	{Name: "raw-70000", TooBig: true, Make: func(r *gen.R) tq.EncoderDecoder { return &rawBody{B: r.Bytes(70000)} }},
}

// checkReply compares the raw bytes written for one request with what the
// property demands. It returns a violation slug ("" when fine) and details.
func checkReply(req rfc8907.Header, secret []byte, kind replyKind, wantClear []byte, written [][]byte, stray int) (string, string) {
	expectPackets := 1
	if req.Seq == 255 || kind.TooBig {
		expectPackets = 0
	}
	if stray != 0 {
		return "stray-bytes", fmt.Sprintf("%d bytes written that do not form a packet with a true length field", stray)
	}
	if req.Seq == 255 && kind.Restart && len(written) <= 1 {
		// unjudged corner: the statement says both "1 only for a RESTART" and
		// "a request numbered 255 receives no reply"; a RESTART numbered 1 is
		// neither 0 nor wrapped, so both outcomes are accepted
		if len(written) == 0 {
			return "", ""
		}
		expectPackets = 1
	}
	if len(written) != expectPackets {
		if req.Seq == 255 && len(written) > 0 {
			return "reply-after-seq-255", fmt.Sprintf("request numbered 255 got %d reply packet(s); first header %x", len(written), written[0][:12])
		}
		if kind.TooBig {
			return "oversize-reply-written", fmt.Sprintf("a %d-byte reply body produced %d packet(s)", len(wantClear), len(written))
		}
		return "reply-count", fmt.Sprintf("%d packets written, %d expected", len(written), expectPackets)
	}
	if expectPackets == 0 {
		return "", ""
	}
	w := written[0]
	want := req
	want.Seq = req.Seq + 1
	if kind.Restart {
		want.Seq = 1
	}
	want.Length = uint32(len(wantClear))
	wh := want.Encode()
	names := []string{"version", "type", "seq", "flags", "session", "session", "session", "session", "length", "length", "length", "length"}
	for i := 0; i < 12; i++ {
		if w[i] != wh[i] {
			return "header-" + names[i], fmt.Sprintf("reply header %x, expected %x (request header %x)", w[:12], wh, req.Encode())
		}
	}
	if len(w)-12 != len(wantClear) {
		return "length-field-vs-body", fmt.Sprintf("length field %d, %d body bytes follow", len(wantClear), len(w)-12)
	}
	wantBody := rfc8907.Obfuscate(want, secret, wantClear)
	if !bytes.Equal(w[12:], wantBody) {
		if req.Flags&1 != 0 {
			return "clear-request-obfuscated-reply", "request had the unencrypted flag but the reply body is not the cleartext"
		}
		if bytes.Equal(w[12:], wantClear) {
			return "reply-not-obfuscated", "request was obfuscated but the reply body travels in the clear"
		}
		return "reply-body-pad", "reply body is not cleartext XOR the RFC pad for the reply's own header and the connection's secret"
	}
	return "", ""
}

func flagPattern(fl int) string {
	return fmt.Sprintf("u%d,s%d,o%d", fl&1, (fl>>2)&1, map[bool]int{true: 1, false: 0}[fl&^5 != 0])
}

func seqBucket(s int) string {
	switch {
	case s == 1:
		return "1"
	case s == 253:
		return "253"
	case s == 255:
		return "255"
	case s < 128:
		return "3-127"
	}
	return "129-251"
}

func runC06(b *mon.B) {
	r := gen.New(uint64(b.Seed), 0xC06, uint64(b.Index))
	srv := startLibServer()
	srv.Net.SetKeepLog(false)
	defer srv.Stop()
	secret := []byte("c06/" + r.Alnum(10))
	conn := srv.dial(1, secret)
	reconnects := 1
	caseNo := 0
	sessions := []uint32{0, 1, 0xffffffff, 0x01020304}
	idx := 0

	one := func(h rfc8907.Header, kind replyKind) {
		caseNo++
		if !b.Want(caseNo) {
			return
		}
		rep := kind.Make(r)
		wantClear, _ := rep.MarshalBinary()
		srv.Plan.set(h.Session, planStep{Reply: rep})
		clear := c05Body(r, h.Type, r.Pick(0, 6, 20, 40), false)
		written, stray, invs, st, err := srv.step(conn, pktSpec{H: h, Clear: clear}.wire(secret))
		if err != nil {
			b.Inconclusive("case %d: %v", caseNo, err)
			conn = srv.dial(1000+reconnects, secret)
			reconnects++
			return
		}
		b.Eval(1)
		b.Class("type%d/minor%d/%s/seq%s/%s", h.Type, h.Minor, flagPattern(h.Flags), seqBucket(h.Seq), kind.Name)
		if caseNo%4001 == 0 {
			b.Sample("exchange", map[string]interface{}{"request_header": hexs(h.Encode()), "reply_kind": kind.Name, "reply": func() string {
				if len(written) > 0 {
					return hexs(written[0])
				}
				return "(nothing written)"
			}()})
		}
		w := func(msg string) map[string]interface{} {
			return map[string]interface{}{"request_header": hexs(h.Encode()), "reply_kind": kind.Name, "detail": msg}
		}
		if len(invs) != 1 {
			b.Violate(caseNo, "C06/request-not-delivered", fmt.Sprintf("request %x reached %d handlers", h.Encode(), len(invs)), w(""))
		} else if !bytes.Equal(invs[0].Body, clear) {
			b.Violate(caseNo, "C06/request-body-differs", "the handler did not receive the cleartext that was sent", w(""))
		}
		if slug, msg := checkReply(h, secret, kind, wantClear, written, stray); slug != "" {
			b.Violate(caseNo, "C06/"+slug, msg, w(msg))
		} else {
			b.Count("replies_conforming", 1)
		}
		if st.Closed {
			// the server may close after an unwritable reply; open a new connection
			b.Count("connections_closed_by_server", 1)
			conn = srv.dial(1000+reconnects, secret)
			reconnects++
		}
	}

	// ---- header cross product, striped over the batches
	for minor := 0; minor <= 1; minor++ {
		for typ := 1; typ <= 3; typ++ {
			for seq := 1; seq <= 255; seq += 2 {
				for fl := 0; fl < 256; fl++ {
					idx++
					if idx%16 != b.Index {
						continue
					}
					sid := sessions[(seq+fl)%len(sessions)]
					if (seq+fl)%3 == 0 {
						sid = r.U32()
					}
					kind := replyKinds[(idx/16)%5] // the small typed replies
					if (idx/16)%41 == 0 {
						kind = replyKinds[r.Intn(len(replyKinds))]
					}
					one(rfc8907.Header{Major: 0xc, Minor: minor, Type: typ, Seq: seq, Flags: fl, Session: sid}, kind)
				}
			}
		}
	}
	// ---- every reply kind with random headers
	for k := 0; k < b.N(300, 6000); k++ {
		kind := replyKinds[k%len(replyKinds)]
		fl := r.Pick(0, 1, 4, 5, r.Intn(256))
		one(rfc8907.Header{Major: 0xc, Minor: r.Intn(2), Type: 1 + r.Intn(3), Seq: 1 + 2*r.Intn(128), Flags: fl, Session: r.U32()}, kind)
	}
	// ---- Response.Write with a header copied from the request: the writer must still announce
	// the number of body bytes that really follow
	for k := 0; k < b.N(40, 800); k++ {
		caseNo++
		if !b.Want(caseNo) {
			continue
		}
		kind := replyKinds[r.Pick(0, 2, 3, 4, 5, 6)]
		rep := kind.Make(r)
		wantClear, _ := rep.MarshalBinary()
		h := rfc8907.Header{Major: 0xc, Minor: r.Intn(2), Type: 1 + r.Intn(3), Seq: 1 + 2*r.Intn(127), Flags: r.Pick(0, 1, 4, 5), Session: r.U32()}
		srv.Plan.set(h.Session, planStep{Reply: rep, UseWrite: true})
		reqBody := c05Body(r, h.Type, r.Pick(0, 5, 8, 20, 83, 300, 5000), false)
		written, stray, _, st, err := srv.step(conn, pktSpec{H: h, Clear: reqBody}.wire(secret))
		if err != nil {
			b.Inconclusive("write-path case: %v", err)
			break
		}
		b.Eval(1)
		b.Class("response-write/type%d/req%s/reply%s", h.Type, lenBucket(len(reqBody)), lenBucket(len(wantClear)))
		if slug, msg := checkReply(h, secret, kind, wantClear, written, stray); slug != "" {
			b.Violate(caseNo, "C06/response-write/"+slug, fmt.Sprintf("reply sent through Response.Write with a header copied from the request (request body %d bytes, reply body %d bytes): %s", len(reqBody), len(wantClear), msg),
				map[string]interface{}{"request_header": hexs(h.Encode()), "request_body_len": len(reqBody), "reply_body_len": len(wantClear)})
		} else {
			b.Count("response_write_replies_conforming", 1)
		}
		if st.Closed {
			conn = srv.dial(4000+reconnects, secret)
			reconnects++
		}
	}
	// ---- a first reply that cannot be sent, then a fallback reply: the fallback is THE
	// reply to the request and must be numbered request+1
	unsendable := []struct {
		name string
		mk   func() tq.EncoderDecoder
	}{
		{"body-does-not-marshal", func() tq.EncoderDecoder { return &rawBody{Err: fmt.Errorf("cannot marshal")} }},
		{"invalid-author-reply", func() tq.EncoderDecoder {
			return tq.NewAuthorReply(tq.SetAuthorReplyStatus(tq.AuthorStatusPassAdd), tq.SetAuthorReplyArgs("="))
		}},
		{"body-over-64KiB", func() tq.EncoderDecoder { return &rawBody{B: r.Bytes(65537 + r.Intn(100))} }},
	}
	for k := 0; k < b.N(30, 600); k++ {
		caseNo++
		if !b.Want(caseNo) {
			continue
		}
		u := unsendable[k%len(unsendable)]
		kind := replyKinds[r.Pick(0, 2, 3, 5)]
		rep := kind.Make(r)
		wantClear, _ := rep.MarshalBinary()
		h := rfc8907.Header{Major: 0xc, Minor: r.Intn(2), Type: 1 + r.Intn(3), Seq: 1 + 2*r.Intn(127), Flags: r.Pick(0, 1, 4), Session: r.U32()}
		srv.Plan.set(h.Session, planStep{First: u.mk(), Reply: rep, Next: k%2 == 0})
		written, stray, _, st, err := srv.step(conn, pktSpec{H: h, Clear: c05Body(r, h.Type, 10, false)}.wire(secret))
		if err != nil {
			b.Inconclusive("fallback case: %v", err)
			break
		}
		b.Eval(1)
		b.Class("fallback-after/%s/type%d/u%d", u.name, h.Type, h.Flags&1)
		if slug, msg := checkReply(h, secret, kind, wantClear, written, stray); slug != "" {
			b.Violate(caseNo, "C06/fallback-after-"+u.name+"/"+slug, fmt.Sprintf("a first reply (%s) could not be sent; the fallback reply: %s", u.name, msg),
				map[string]interface{}{"request_header": hexs(h.Encode()), "unsendable_first_reply": u.name})
		} else {
			b.Count("fallback_replies_conforming", 1)
		}
		if st.Closed {
			conn = srv.dial(3000+reconnects, secret)
			reconnects++
		}
	}
	// ---- one session walking 1,3,...,255 with a continuation every time
	for rep := 0; rep < b.N(2, 30); rep++ {
		caseNo++
		if !b.Want(caseNo) {
			continue
		}
		sid := r.U32()
		fl := r.Pick(0, 1, 4)
		typ := 1 + r.Intn(3)
		minor := r.Intn(2)
		c2 := srv.dial(5000+rep, secret)
		ok := true
		for seq := 1; seq <= 255 && ok; seq += 2 {
			kind := replyKinds[r.Pick(0, 2, 3, 5)]
			repv := kind.Make(r)
			wantClear, _ := repv.MarshalBinary()
			srv.Plan.set(sid, planStep{Reply: repv, Next: true})
			h := rfc8907.Header{Major: 0xc, Minor: minor, Type: typ, Seq: seq, Flags: fl, Session: sid}
			written, stray, invs, _, err := srv.step(c2, pktSpec{H: h, Clear: c05Body(r, typ, 12, false)}.wire(secret))
			if err != nil {
				b.Inconclusive("walk: %v", err)
				break
			}
			b.Eval(1)
			b.Class("walk/type%d/seq%s", typ, seqBucket(seq))
			if len(invs) != 1 {
				b.Violate(caseNo, "C06/walk/request-not-delivered", fmt.Sprintf("multi-packet exchange: request %d of the session reached %d handlers", seq, len(invs)), nil)
				ok = false
			}
			if slug, msg := checkReply(h, secret, kind, wantClear, written, stray); slug != "" {
				b.Violate(caseNo, "C06/walk/"+slug, fmt.Sprintf("at sequence %d of a multi-packet exchange: %s", seq, msg), map[string]interface{}{"seq": seq})
				ok = false
			}
		}
		b.Count("full_sequence_walks", 1)
	}
	_ = simnet.KWrite
	c06Reference(b, r, &caseNo)
}

// c06Reference feeds the replies of the REFERENCE server (every handler path of the recipes)
// through the same raw-header oracle.
func c06Reference(b *mon.B, r *gen.R, caseNo *int) {
	sc := richConfig(r, 1)
	ref, err := refsrv.Start(sc.Cfg, refsrv.Options{Keys: sc.Keys})
	if err != nil {
		b.Inconclusive("reference configuration did not load: %v", err)
		return
	}
	defer ref.Close()
	ref.Net.SetKeepLog(false)
	key := []byte(sc.Scopes[0].Key)
	for k := 0; k < b.N(150, 4000); k++ {
		*caseNo++
		rcp := pickRecipe(r, sc)
		if !b.Want(*caseNo) {
			continue
		}
		rc := newRefConn(ref, k%60000+1, key)
		sid := r.U32()
		flagsExtra := r.Pick(0, 0, 4, 0x10, 0xf4)
		// sessions need not start at 1: any odd number opens one (and every reply is numbered request+1)
		first := r.Pick(1, 1, 3, 5, 77, 249)
		for i, p := range rcp.Pkts {
			h := rfc8907.Header{Major: 0xc, Minor: p.Minor, Type: p.Type, Seq: first + 2*i, Flags: p.Flags | flagsExtra, Session: sid}
			if h.Seq > 253 {
				break
			}
			if rcp.Name != "ascii" && rcp.Name != "pap-minor1" && r.Chance(1, 3) {
				h.Minor = 1 - h.Minor // supported and unsupported minor versions alike are mirrored
			}
			res := rc.send(h, p.Body, p.WellFormed)
			if res.Err != nil || res.Verdict != "accept" {
				break
			}
			b.Eval(1)
			b.Class("reference/%s/minor%d/flags%#x", pathOf(p.Label), h.Minor, flagsExtra)
			for _, rp := range res.Replies {
				want := h
				want.Seq = h.Seq + 1
				if rp.Value != nil && h.Type == 1 && rp.status() == 6 {
					want.Seq = 1
				}
				want.Length = uint32(len(rp.Raw) - 12)
				if !bytes.Equal(rp.Raw[:12], want.Encode()) {
					names := []string{"version", "type", "seq", "flags", "session", "session", "session", "session", "length", "length", "length", "length"}
					off := firstDiff(rp.Raw[:12], want.Encode())
					b.Violate(*caseNo, "C06/reference-server/header-"+names[off], fmt.Sprintf("reference server, %s: reply header %x does not mirror the request header %x", p.Label, rp.Raw[:12], h.Encode()),
						map[string]interface{}{"request": p.Label, "request_header": hexs(h.Encode()), "reply_header": hexs(rp.Raw[:12])})
				} else {
					b.Count("reference_server_replies_mirroring", 1)
				}
			}
			if res.State.Closed {
				break
			}
		}
		if !rc.c.Closed() {
			rc.c.EOF()
		}
		ref.Net.Forget(rc.c)
	}
}
