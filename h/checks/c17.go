package checks

import (
	"context"
	"fmt"
	"net"
	"runtime"
	"strings"
	"sync"
	"time"
	"verif/h/refsrv"

	tq "github.com/facebookincubator/tacquito"
	"verif/h/gen"
	"verif/h/kit"
	"verif/h/mon"
	"verif/h/rfc8907"
	"verif/h/simnet"
	"verif/h/tap"
)

// C17 — shutdown waits for connections; idle connections are reaped by a
// read deadline (event-order monitor over the simnet log, virtual time).

func init() {
	mon.Register(&mon.Check{
		ID:        "C17",
		Boost:     10,
		Batches:   func(tier string) int { return 16 },
		Run:       runC17,
		Technique: "event-order runtime monitor over a totally ordered log of every listener/connection/handler call of the real Serve loop, with virtual time for deadlines; cancellation is injected at generated moments (before accept, between accept and the goroutine's first action, during blocked reads, inside gated handlers, between reply and return)",
		Rule: "a scenario = one server, 0..64 connections each put into one of: idle, mid-header, mid-body, exchange finished, continuation pending, handler held before its reply, handler held after its reply, accepted-after-cancel with a delayed first action; cancellation before/after the connections are dialled; then all blocked reads are timed out and gates released. Separate pacing scenarios: silent peer, partial packet then silence, one byte just before each deadline, periodic valid requests with 10 s gaps. " +
			"A class is (cancel moment, set of connection states present) or (pacing pattern); distinct_nontrivial counts classes",
		Assumptions: []string{"liveness is restated as bounded progress: once every blocked read has been answered with a timeout and every gate released, Serve returns before a 20 s wall-clock watchdog; the watchdog alone is 'inconclusive', a violation needs a quiescent-state witness (all connections finished yet Serve parked, or a read error returned yet no Close)",
			"the real 15 s / 10 s deadlines are emulated by virtual time (simnet); a finite deadline is required to be armed at every Read entry"},
		MinClasses: func(tier string) int { return 20 },
	})
}

type c17Handler struct {
	release chan struct{}
	mu      sync.Mutex
	atGate  int
	// ext enables two further marks (used by C20): 'R' answers RESTART (the reply carries number 1
	// again) and stays registered, 'N' stays registered without answering at all
	ext bool
}

func (h *c17Handler) hold() {
	h.mu.Lock()
	h.atGate++
	h.mu.Unlock()
	<-h.release
}

func (h *c17Handler) gated() int {
	h.mu.Lock()
	defer h.mu.Unlock()
	return h.atGate
}

func (h *c17Handler) Handle(resp tq.Response, req tq.Request) {
	mark := byte(0)
	if n := len(req.Body); n > 0 {
		mark = req.Body[n-1]
	}
	if mark == 'G' {
		h.hold()
	}
	if mark == 'C' {
		resp.Next(h)
	}
	if h.ext && mark == 'R' {
		resp.Next(h)
		resp.Reply(tq.NewAuthenReply(tq.SetAuthenReplyStatus(tq.AuthenStatusRestart)))
		return
	}
	if h.ext && mark == 'N' {
		resp.Next(h)
		return
	}
	resp.Reply(&rawBody{B: []byte{1, 0, 0, 0, 0, 0}})
	if mark == 'H' {
		h.hold()
	}
}

func markedBody(r *gen.R, typ int, mark byte) []byte {
	b := c05Body(r, typ, 9+r.Intn(20), false)
	b[len(b)-1] = mark
	return b
}

var c17States = []string{"idle", "mid-header", "mid-body", "finished", "continuation-pending", "held-before-reply", "held-after-reply"}

func waitUntil(d time.Duration, cond func() bool) bool {
	deadline := time.Now().Add(d)
	for !cond() {
		if time.Now().After(deadline) {
			return false
		}
		time.Sleep(200 * time.Microsecond)
	}
	return true
}

func runC17(b *mon.B) {
	r := gen.New(uint64(b.Seed), 0xC17, uint64(b.Index))
	secret := []byte("c17")
	caseNo := 0
	if b.Thorough() && b.Index == 0 && b.Only < 0 {
		c17RealTCP(b)
	}

	// ---------------- shutdown scenarios ----------------
	nScen := b.N(60, 1500)
	for k := 0; k < nScen; k++ {
		caseNo++
		maxConn := 10
		if b.Thorough() && k%10 == 0 {
			maxConn = 64
		}
		nc := r.Intn(maxConn + 1)
		if k%9 == 0 {
			nc = 0
		}
		cancelMoment := []string{"after-setup", "before-dial", "mixed", "listener-closed-externally"}[r.Intn(4)]
		states := make([]string, nc)
		for i := range states {
			states[i] = c17States[r.Intn(len(c17States))]
		}
		late := 0
		if cancelMoment == "before-dial" || cancelMoment == "mixed" {
			late = 1 + r.Intn(4)
		}
		if cancelMoment == "before-dial" {
			states = states[:0] // nothing can be set up on a cancelled server beyond the late connections
			nc = 0
		}
		delayLate := time.Duration(r.Intn(3)) * time.Millisecond
		if !b.Want(caseNo) {
			continue
		}
		b.Eval(1)
		present := map[string]bool{}
		for _, s := range states {
			present[s] = true
		}
		key := cancelMoment + fmt.Sprintf("/late%d", late)
		for _, s := range c17States {
			if present[s] {
				key += "/" + s
			}
		}
		b.Class(key)
		b.Count("connections_in_scenarios", nc+late)

		world := simnet.New()
		world.Watchdog = 20 * time.Second
		tp := tap.New(world)
		h := &c17Handler{release: make(chan struct{})}
		srv := kit.Start(world, tp, tap.NewLogger(false), &tap.Static{Secret: secret, Handler: tp.Wrap("initial", h)})
		var conns []*simnet.Conn
		wantGated := 0
		if cancelMoment == "before-dial" {
			// let Serve park in Accept, then cancel: connections dialled afterwards are
			// accepted by the already blocked Accept / the following ones
			waitUntil(2*time.Second, func() bool { return world.Count(simnet.KLAcceptEnter) > 0 })
			srv.Cancel()
		}
		setupFailed := false
		for i, st := range states {
			c := srv.L.Dial(simnet.RemoteFor(i + 1))
			conns = append(conns, c)
			typ := 1 + r.Intn(3)
			hd := rfc8907.Header{Major: 0xc, Minor: 0, Type: typ, Seq: 1, Session: r.U32()}
			switch st {
			case "idle":
			case "mid-header":
				c.Feed(pktSpec{H: hd, Clear: markedBody(r, typ, 'x')}.wire(secret)[:1+r.Intn(11)])
			case "mid-body":
				w := pktSpec{H: hd, Clear: markedBody(r, typ, 'x')}.wire(secret)
				c.Feed(w[:12+r.Intn(len(w)-12)])
			case "finished":
				c.Feed(pktSpec{H: hd, Clear: markedBody(r, typ, 'x')}.wire(secret))
			case "continuation-pending":
				c.Feed(pktSpec{H: hd, Clear: markedBody(r, typ, 'C')}.wire(secret))
			case "held-before-reply":
				c.Feed(pktSpec{H: hd, Clear: markedBody(r, typ, 'G')}.wire(secret))
				wantGated++
			case "held-after-reply":
				c.Feed(pktSpec{H: hd, Clear: markedBody(r, typ, 'H')}.wire(secret))
				wantGated++
			}
		}
		// wait for the set-up to settle: gated handlers at their gate, the others parked in Read
		if !waitUntil(10*time.Second, func() bool { return h.gated() >= wantGated }) {
			setupFailed = true
		}
		for i, c := range conns {
			if states[i] == "held-before-reply" || states[i] == "held-after-reply" {
				continue
			}
			if _, err := c.WaitQuiescent(); err != nil {
				setupFailed = true
			}
		}
		if setupFailed {
			b.Inconclusive("scenario %d: set-up did not settle", caseNo)
			close(h.release)
			srv.Stop()
			continue
		}
		if cancelMoment == "after-setup" || cancelMoment == "mixed" {
			srv.Cancel()
		}
		if cancelMoment == "listener-closed-externally" {
			// the embedding program closes the listener itself (and cancels): Accept fails with a
			// permanent error while connections are still being handled
			srv.L.Close()
			srv.Cancel()
		}
		// connections that arrive around/after cancellation, their first action delayed
		for i := 0; i < late; i++ {
			c := world.NewConn(simnet.RemoteFor(1000 + i))
			c.RemoteAddrDelay = delayLate
			srv.L.Offer(c)
			conns = append(conns, c)
			states = append(states, "late")
		}
		// Serve must not return while connections are open / handlers are held
		srv.L.Tick()
		srv.L.Tick()
		time.Sleep(time.Duration(300+r.Intn(1500)) * time.Microsecond)
		openNow := 0
		for i, c := range conns {
			if states[i] != "late" && !c.Closed() {
				openNow++
			}
		}
		if srv.Served() && openNow > 0 {
			b.Violate(caseNo, "C17/serve-returned-with-open-connections",
				fmt.Sprintf("Serve returned while %d connections were still open (%d handlers held at a gate)", openNow, wantGated),
				map[string]interface{}{"scenario": key, "states": states})
		}
		// release everything: gates open, every blocked read reaches its deadline
		close(h.release)
		world.StallAll()
		err := srv.WaitServe()
		time.Sleep(2 * time.Millisecond)
		runtime.Gosched()
		events := world.Events()
		if err != nil {
			// quiescent-state witness?
			allDone := true
			for _, c := range conns {
				if !c.Closed() {
					allDone = false
				}
			}
			if allDone && world.Count(simnet.KHandlerEnter) == world.Count(simnet.KHandlerExit) {
				b.Violate(caseNo, "C17/serve-never-returns", "every connection is closed and every handler has exited, yet Serve is still blocked after cancellation",
					map[string]interface{}{"scenario": key, "states": states})
			} else {
				b.Inconclusive("scenario %d: Serve did not return before the watchdog (connections still open)", caseNo)
			}
			continue
		}
		judgeC17Log(b, caseNo, key, states, conns, events, world)
		if k%97 == 0 {
			b.Sample("shutdown-scenario", map[string]interface{}{"cancel": cancelMoment, "states": states, "events_logged": len(events)})
		}
	}

	// ---------------- pacing / idle scenarios ----------------
	pacing := []string{"silent", "partial-header-then-silence", "partial-body-then-silence", "byte-just-before-each-deadline", "periodic-10s-gaps", "packet-then-silence", "slow-second-packet",
		"open-session-then-silence", "open-session-then-partial-packet", "two-open-sessions-then-silence",
		"single-connect-open-session-then-silence", "single-connect-packet-then-silence", "packet-and-partial-next-in-one-segment", "open-session-and-partial-next-in-one-segment",
		"provider-without-secret", "provider-without-handler",
		"proxy:silent", "proxy:partial-line-then-silence", "proxy:line-then-silence", "proxy:line-and-packet-then-silence"}
	for k := 0; k < b.N(40, 900); k++ {
		caseNo++
		pat := pacing[k%len(pacing)]
		if !b.Want(caseNo) {
			continue
		}
		b.Eval(1)
		b.Class("pacing/" + pat)
		world := simnet.New()
		world.Watchdog = 20 * time.Second
		tp := tap.New(world)
		h := &c17Handler{release: make(chan struct{})}
		close(h.release)
		var sopts []tq.Option
		if strings.HasPrefix(pat, "proxy:") {
			sopts = append(sopts, tq.SetUseProxy(true))
		}
		var provider tq.SecretProvider = &tap.Static{Secret: secret, Handler: tp.Wrap("initial", h)}
		switch pat {
		case "provider-without-secret":
			provider = &tap.Static{Secret: nil, Handler: tp.Wrap("initial", h)}
		case "provider-without-handler":
			provider = &tap.Static{Secret: secret, Handler: nil}
		}
		srv := kit.Start(world, tp, tap.NewLogger(false), provider, sopts...)
		c := srv.L.Dial(simnet.RemoteFor(k + 1))
		typ := 1 + r.Intn(3)
		hflags := 0
		if strings.HasPrefix(pat, "single-connect") {
			hflags = 4
		}
		mk := func(seq int, sid uint32) []byte {
			return pktSpec{H: rfc8907.Header{Major: 0xc, Minor: 0, Type: typ, Seq: seq, Flags: hflags, Session: sid}, Clear: markedBody(r, typ, 'x')}.wire(secret)
		}
		// a packet whose reply registers a continuation: the session stays open
		mkOpen := func(seq int, sid uint32) []byte {
			return pktSpec{H: rfc8907.Header{Major: 0xc, Minor: 0, Type: typ, Seq: seq, Flags: hflags, Session: sid}, Clear: markedBody(r, typ, 'C')}.wire(secret)
		}
		expectHandlers := 0
		expectOpen := false
		switch pat {
		case "silent":
			c.Stall()
		case "partial-header-then-silence":
			c.Feed(mk(1, 5)[:1+r.Intn(11)])
			c.Stall()
		case "partial-body-then-silence":
			w := mk(1, 5)
			c.Feed(w[:13+r.Intn(len(w)-13)])
			c.Stall()
		case "byte-just-before-each-deadline":
			w := mk(1, 5)
			for i := range w {
				c.FeedAfter(14*time.Second, w[i:i+1])
			}
			c.Stall()
		case "periodic-10s-gaps":
			for i := 0; i < 12; i++ {
				c.FeedAfter(10*time.Second, mk(1, uint32(100+i)))
			}
			expectHandlers = 12
			expectOpen = true
		case "packet-then-silence":
			c.Feed(mk(1, 5))
			c.Stall()
			expectHandlers = 1
		case "open-session-then-silence":
			// idle in the middle of a multi-packet exchange
			c.Feed(mkOpen(1, 5))
			if r.Bool() {
				c.Feed(mkOpen(3, 5))
				expectHandlers = 1
			}
			c.Stall()
			expectHandlers++
		case "single-connect-open-session-then-silence":
			c.Feed(mkOpen(1, 5))
			c.Stall()
			expectHandlers = 1
		case "single-connect-packet-then-silence":
			c.Feed(mk(1, 5))
			c.Stall()
			expectHandlers = 1
		case "packet-and-partial-next-in-one-segment", "open-session-and-partial-next-in-one-segment":
			// one segment: a complete packet (it gets its reply) and the first bytes of another one
			// that is never completed
			first := mk(1, 5)
			if pat[0] == 'o' {
				first = mkOpen(1, 5)
			}
			next := mk(1, 6)
			c.Feed(append(append([]byte{}, first...), next[:1+r.Intn(len(next)-1)]...))
			c.Stall()
			expectHandlers = 1
		case "provider-without-secret", "provider-without-handler":
			// the secret provider answers without an error but with nothing to serve the client with
			c.Feed(mk(1, 5))
			c.Stall()
		case "open-session-then-partial-packet":
			c.Feed(mkOpen(1, 5))
			w := mk(3, 5)
			c.Feed(w[:1+r.Intn(len(w)-1)])
			c.Stall()
			expectHandlers = 1
		case "two-open-sessions-then-silence":
			c.Feed(mkOpen(1, 5))
			c.Feed(mkOpen(1, 6))
			c.Feed(mk(3, 5))
			c.Stall()
			expectHandlers = 3
		case "proxy:silent":
			c.Stall()
		case "proxy:partial-line-then-silence":
			c.Feed([]byte("PROXY TCP4 192.0.2.1 192."))
			c.Stall()
		case "proxy:line-then-silence":
			c.Feed(proxyLine())
			c.Stall()
		case "proxy:line-and-packet-then-silence":
			c.Feed(proxyLine())
			c.Feed(mk(1, 5))
			c.Stall()
			expectHandlers = 1
		case "slow-second-packet":
			c.Feed(mk(1, 5))
			c.FeedAfter(16*time.Second, mk(1, 6))
			c.Stall()
			expectHandlers = 1
		}
		if strings.HasPrefix(pat, "provider-") {
			// nothing to wait for on the connection (a server that forgets to close it would cost a
			// watchdog): wait until it was accepted, stop the server, and judge the states then -
			// Serve has returned, so the connection must be closed and no handler may have run
			waitUntil(20*time.Second, c.Accepted)
			if err := srv.Stop(); err != nil {
				b.Inconclusive("pacing %s: Serve did not return", pat)
				continue
			}
			if !c.Closed() {
				b.Violate(caseNo, "C17/connection-open-at-serve-return/"+pat, fmt.Sprintf("pattern %s: the provider had nothing to serve the client with; Serve has returned and the accepted connection was never closed", pat), map[string]interface{}{"pattern": pat})
			}
			if tp.Count() != 0 {
				b.Violate(caseNo, "C17/handler-for-incomplete-packet/"+pat, fmt.Sprintf("pattern %s: %d handler calls for a client the provider does not know", pat, tp.Count()), nil)
			}
			continue
		}
		st, err := c.WaitQuiescent()
		if err != nil {
			b.Inconclusive("pacing %s: %v", pat, err)
			srv.Stop()
			continue
		}
		stats := c.Stats()
		b.Max("max:virtual_seconds_connection_open", int(stats.VNow/time.Second))
		w := map[string]interface{}{"pattern": pat, "handlers": tp.Count(), "closed": st.Closed, "virtual_time_s": int(stats.VNow / time.Second), "timeouts_delivered": stats.Timeouts}
		if stats.ReadsNoDeadline > 0 {
			b.Violate(caseNo, "C17/read-without-deadline", fmt.Sprintf("%d reads were issued with no read deadline armed (pattern %s)", stats.ReadsNoDeadline, pat), w)
		}
		if expectOpen {
			if st.Closed || tp.Count() != expectHandlers {
				b.Violate(caseNo, "C17/healthy-periodic-connection-closed", fmt.Sprintf("a client sending a complete request every 10 s was served %d of %d requests (closed=%v): the deadline is not re-armed per read", tp.Count(), expectHandlers, st.Closed), w)
			}
		} else {
			if !st.Closed {
				b.Violate(caseNo, "C17/stalled-connection-not-closed/"+pat, fmt.Sprintf("pattern %s: the connection delivered no complete packet before the deadline yet stays open", pat), w)
			}
			if tp.Count() != expectHandlers {
				b.Violate(caseNo, "C17/handler-for-incomplete-packet/"+pat, fmt.Sprintf("pattern %s: %d handler calls, %d complete packets were delivered in time", pat, tp.Count(), expectHandlers), w)
			}
		}
		if err := srv.Stop(); err != nil {
			b.Inconclusive("pacing %s: Serve did not return", pat)
			continue
		}
		time.Sleep(time.Millisecond)
		judgeC17Log(b, caseNo, "pacing/"+pat, []string{pat}, []*simnet.Conn{c}, world.Events(), world)
	}
	c17SharedContext(b, r.Fork(0xC17A), &caseNo)
}

// c17SharedContext: the reference server wired like cmds/server/main.go (ONE context for the loader
// and for Serve). After the cancellation clients may still connect during the accept window; Serve
// returns all the same, and no connection stays open.
func c17SharedContext(b *mon.B, r *gen.R, caseNo *int) {
	for k := 0; k < b.N1(3, 12); k++ {
		*caseNo++
		if !b.Want(*caseNo) {
			continue
		}
		b.Eval(1)
		sc := richConfig(r, 1)
		ref, err := refsrv.Start(sc.Cfg, refsrv.Options{Keys: sc.Keys, ShareContext: true, ViaYAML: k%2 == 0})
		if err != nil {
			b.Inconclusive("reference configuration did not load: %v", err)
			continue
		}
		ref.Net.Watchdog = 20 * time.Second
		key := []byte(sc.Scopes[0].Key)
		nBefore, nAfter := r.Intn(3), 1+r.Intn(3)
		b.Class("shared-context/before=%d/after=%d", nBefore, nAfter)
		var conns []*simnet.Conn
		for i := 0; i < nBefore; i++ {
			rc := newRefConn(ref, i+1, key)
			rc.send(rfc8907.Header{Major: 0xc, Type: 2, Seq: 1, Session: r.U32()}, bAuthorRequest(6, 1, 1, 1, "alice", "p", "r", "service=shell", "cmd=show", "cmd-arg=version"), true)
			conns = append(conns, rc.c)
		}
		ref.Cancel()
		for i := 0; i < nAfter; i++ {
			conns = append(conns, ref.L.Dial(simnet.RemoteFor(100+i)))
		}
		ref.Net.StallAll()
		if err := ref.WaitServe(); err != nil {
			if frame := stuckFrame(true); frame != "" {
				b.Violate(*caseNo, "C17/serve-never-returns-after-cancel/"+frame, fmt.Sprintf("loader and Serve share one context; %d clients connected after the cancellation: every read has reached its deadline, yet Serve has not returned - a server goroutine is parked in %s", nAfter, frame),
					map[string]interface{}{"connections_before_cancel": nBefore, "connections_after_cancel": nAfter})
			} else {
				b.Inconclusive("shared context: Serve did not return")
			}
			continue
		}
		open := 0
		for _, c := range conns {
			if c.Accepted() && !c.Closed() {
				open++
			}
		}
		if open > 0 {
			b.Violate(*caseNo, "C17/connection-open-at-serve-return/shared-context", fmt.Sprintf("%d accepted connections are still open after Serve returned", open), nil)
		} else {
			b.Count("shared_context_shutdowns_clean", 1)
		}
		ref.Close()
	}
}

// c17RealTCP repeats the idle / shutdown scenarios once over real loopback TCP in
// real time (thorough tier, batch 0): corroborates that the virtual-time emulation
// hides nothing. Timing anomalies are reported as inconclusive; only state-based
// observations (a connection still open after Serve returned) are violations.
func c17RealTCP(b *mon.B) {
	l, err := net.Listen("tcp", "127.0.0.1:0")
	if err != nil {
		b.Inconclusive("real TCP: cannot listen on loopback: %v", err)
		return
	}
	secret := []byte("c17-tcp")
	tp := tap.New(nil)
	h := &c17Handler{release: make(chan struct{})}
	close(h.release)
	srv := tq.NewServer(tap.NewLogger(false), &tap.Static{Secret: secret, Handler: tp.Wrap("initial", h)})
	ctx, cancel := context.WithCancel(context.Background())
	served := make(chan struct{})
	go func() { srv.Serve(ctx, l.(*net.TCPListener)); close(served) }()
	r := gen.New(17)
	dial := func() net.Conn {
		c, err := net.Dial("tcp", l.Addr().String())
		if err != nil {
			return nil
		}
		return c
	}
	idle, partial, done := dial(), dial(), dial()
	if idle == nil || partial == nil || done == nil {
		b.Inconclusive("real TCP: cannot connect")
		cancel()
		return
	}
	w := pktSpec{H: rfc8907.Header{Major: 0xc, Type: 1, Seq: 1, Session: 9}, Clear: markedBody(r, 1, 'x')}.wire(secret)
	partial.Write(w[:7])
	done.Write(w)
	start := time.Now()
	closedAfter := func(c net.Conn, limit time.Duration) time.Duration {
		buf := make([]byte, 4096)
		c.SetReadDeadline(time.Now().Add(limit))
		for {
			if _, err := c.Read(buf); err != nil {
				if ne, ok := err.(net.Error); ok && ne.Timeout() {
					return -1
				}
				return time.Since(start)
			}
		}
	}
	var wg sync.WaitGroup
	res := make([]time.Duration, 3)
	for i, c := range []net.Conn{idle, partial, done} {
		wg.Add(1)
		go func(i int, c net.Conn) { defer wg.Done(); res[i] = closedAfter(c, 45*time.Second) }(i, c)
	}
	wg.Wait()
	b.Eval(1)
	b.Class("real-tcp/idle-reaping")
	for i, name := range []string{"idle", "partial-header", "after-complete-exchange"} {
		if res[i] < 0 {
			b.Inconclusive("real TCP: %s connection was not closed by the server within 45 s", name)
		} else {
			b.Max("max:real_tcp_seconds_until_"+name+"_connection_closed", int(res[i]/time.Second))
			if res[i] < 10*time.Second {
				b.Inconclusive("real TCP: %s connection closed after only %v (15 s read deadline expected)", name, res[i])
			}
		}
	}
	if tp.Count() != 1 {
		b.Violate(-1, "C17/real-tcp/handler-count", fmt.Sprintf("real TCP: %d handler calls for one complete packet and one partial packet", tp.Count()), nil)
	}
	// shutdown with one idle connection open
	open1 := dial()
	time.Sleep(200 * time.Millisecond)
	cancelAt := time.Now()
	cancel()
	select {
	case <-served:
		b.Max("max:real_tcp_seconds_cancel_to_serve_return", int(time.Since(cancelAt)/time.Second))
	case <-time.After(60 * time.Second):
		b.Inconclusive("real TCP: Serve did not return within 60 s of cancellation")
		return
	}
	b.Class("real-tcp/shutdown")
	if open1 != nil {
		open1.SetReadDeadline(time.Now().Add(3 * time.Second))
		if _, err := open1.Read(make([]byte, 16)); err != nil {
			if ne, ok := err.(net.Error); ok && ne.Timeout() {
				b.Violate(-1, "C17/real-tcp/connection-open-after-serve-returned", "real TCP: 3 s after Serve returned a connection accepted before cancellation is still open", nil)
			}
		}
	}
	if _, err := net.DialTimeout("tcp", l.Addr().String(), time.Second); err == nil {
		b.Violate(-1, "C17/real-tcp/listener-open-after-serve-returned", "real TCP: the listener still accepts connections after Serve returned", nil)
	}
}

// judgeC17Log applies the event-order oracle to one finished scenario.
func judgeC17Log(b *mon.B, caseNo int, key string, states []string, conns []*simnet.Conn, events []simnet.Event, world *simnet.Net) {
	var serveT int64 = -1
	for _, e := range events {
		if e.Kind == simnet.KServeReturn {
			serveT = e.T
		}
	}
	b.Count("events_examined", len(events))
	w := func(extra string) map[string]interface{} {
		tailEv := events
		if len(tailEv) > 40 {
			tailEv = tailEv[len(tailEv)-40:]
		}
		var lines []string
		for _, e := range tailEv {
			lines = append(lines, fmt.Sprintf("%d conn%d %s %d %s", e.T, e.Conn, e.Kind, e.N, e.Note))
		}
		return map[string]interface{}{"scenario": key, "states": states, "detail": extra, "log_tail": lines}
	}
	if serveT < 0 {
		return
	}
	accepted := map[int]bool{}
	closed := map[int]bool{}
	inHandler := map[int]int{}
	lclosed := false
	timedOut := map[int]bool{}
	for _, e := range events {
		if e.T > serveT {
			if e.Conn != 0 || e.Kind == simnet.KHandlerEnter {
				b.Violate(caseNo, "C17/event-after-serve-returned/"+e.Kind, fmt.Sprintf("after Serve returned the server still performed %s on connection %d", e.Kind, e.Conn), w(""))
				return
			}
			continue
		}
		switch e.Kind {
		case simnet.KAccept:
			accepted[e.Conn] = true
		case simnet.KClose:
			closed[e.Conn] = true
		case simnet.KLClose:
			lclosed = true
		case simnet.KHandlerEnter:
			inHandler[e.Conn]++
			if timedOut[e.Conn] {
				b.Violate(caseNo, "C17/handler-after-timeout", fmt.Sprintf("connection %d: a handler ran after a read had timed out", e.Conn), w(""))
			}
		case simnet.KHandlerExit:
			inHandler[e.Conn]--
		case simnet.KReadTimeout, simnet.KReadEOF:
			timedOut[e.Conn] = true
		case simnet.KReadEnter:
			if timedOut[e.Conn] {
				b.Violate(caseNo, "C17/read-after-timeout", fmt.Sprintf("connection %d: the server kept reading after a read had timed out", e.Conn), w(""))
			}
		case simnet.KUseAfterStop:
			b.Violate(caseNo, "C17/use-after-close", fmt.Sprintf("connection %d: %s", e.Conn, e.Note), w(""))
		}
	}
	if !lclosed {
		b.Violate(caseNo, "C17/listener-open-at-serve-return", "Serve returned without closing the listener", w(""))
	}
	for id := range accepted {
		if !closed[id] {
			b.Violate(caseNo, "C17/connection-open-at-serve-return", fmt.Sprintf("Serve returned while accepted connection %d was not closed", id), w(""))
			break
		}
	}
	for id, n := range inHandler {
		if n > 0 {
			b.Violate(caseNo, "C17/handler-running-at-serve-return", fmt.Sprintf("Serve returned while a handler on connection %d had not exited", id), w(""))
			break
		}
	}
	for _, c := range conns {
		if s := c.Stats(); s.ReadsNoDeadline > 0 {
			b.Violate(caseNo, "C17/read-without-deadline", fmt.Sprintf("connection %d: %d reads issued with no read deadline armed", c.ID, s.ReadsNoDeadline), w(""))
			break
		}
	}
}
