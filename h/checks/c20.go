package checks

import (
	"context"
	"fmt"
	"net"
	"sync/atomic"

	tq "github.com/facebookincubator/tacquito"
	"sort"
	"strings"
	"sync"
	"time"

	"github.com/prometheus/client_golang/prometheus"
	"verif/h/gen"
	"verif/h/kit"
	"verif/h/mon"
	"verif/h/rfc8907"
	"verif/h/simnet"
	"verif/h/tap"
)

// C20 — in-flight gauges return to rest and never go negative (conservation
// monitor over the default prometheus registry).

func init() {
	mon.Register(&mon.Check{
		ID:        "C20",
		Batches:   func(tier string) int { return 16 },
		Run:       runC20,
		Technique: "conservation runtime monitor: the four in-flight gauges are gathered from the default prometheus registry before a burst, sampled during it (after every step of sequential histories, by a background sampler during concurrent bursts) and at quiescence (after Serve returned); every sample must be >= 0 and the quiescent values must equal the pre-burst values",
		Rule: "a burst = one server and 1..64 connections, each running one history kind: completed single-packet session, completed multi-packet session, session abandoned while a continuation is pending (EOF / silence), first packet with an even sequence number, sequence violation on an open session, key-mismatch signature, refused admission, oversize header, truncated packet, idle, open at shutdown; sequential and concurrent. " +
			"A class is the sorted set of history kinds in a burst (+mode); distinct_nontrivial counts classes",
		Assumptions: []string{"gauges are process-global: one server per burst, bursts run one after the other inside a worker process; quiescence = Serve has returned for the server that handled the burst"},
		MinClasses:  func(tier string) int { return 30 },
	})
}

var c20Gauges = []string{"tacquito_serve_accepted", "tacquito_handle_handlers", "tacquito_sessions_active", "tacquito_waitgroup_handle_routines_active"}

func readGauges() map[string]float64 {
	out := map[string]float64{}
	mfs, err := prometheus.DefaultGatherer.Gather()
	if err != nil {
		return out
	}
	for _, mf := range mfs {
		for _, g := range c20Gauges {
			if mf.GetName() == g && len(mf.Metric) > 0 && mf.Metric[0].Gauge != nil {
				out[g] = mf.Metric[0].Gauge.GetValue()
			}
		}
	}
	return out
}

var c20Kinds = []string{"complete-1", "complete-multi", "abandon-eof", "abandon-silence", "even-first", "seq-violation", "key-mismatch", "refused", "oversize", "truncated", "idle", "open-at-shutdown", "two-sessions-one-abandoned",
	"many-open-sessions", "reply-write-fails", "reply-write-fails-then-more", "top-of-number-space-then-restart", "walk-to-255", "session-id-reused", "open-session-then-key-mismatch", "hangup-at-once",
	"restart-reply-then-first-number-again", "no-reply-then-first-number-again", "reply-write-fails-then-first-number-again"}

func runC20(b *mon.B) {
	r := gen.New(uint64(b.Seed), 0xC20, uint64(b.Index))
	secret := []byte("c20-secret")
	base := readGauges()
	if len(base) != len(c20Gauges) {
		b.Inconclusive("gauges not found in the default registry: %v", base)
		return
	}
	caseNo := 0
	noServeReturn := 0 // after two such bursts the dial-after-cancel ending is not used any more (each costs a watchdog)
	nBursts := b.N(130, 5000)
	for k := 0; k < nBursts; k++ {
		caseNo++
		concurrent := k%3 == 2
		nc := 1 + r.Intn(6)
		if concurrent {
			nc = 2 + r.Intn(14)
			if b.Thorough() && k%30 == 2 {
				nc = 64
			}
		}
		kinds := make([]string, nc)
		if k < len(c20Kinds)*2 { // every kind alone first
			nc = 1
			kinds = []string{c20Kinds[k%len(c20Kinds)]}
			concurrent = false
		} else {
			for i := range kinds {
				kinds[i] = c20Kinds[r.Intn(len(c20Kinds))]
			}
		}
		seeds := make([]uint64, nc)
		for i := range seeds {
			seeds[i] = r.U64()
		}
		if !b.Want(caseNo) {
			continue
		}
		b.Eval(1)
		set := map[string]bool{}
		for _, kd := range kinds {
			set[kd] = true
		}
		var names []string
		for kd := range set {
			names = append(names, kd)
		}
		sort.Strings(names)
		mode := "sequential"
		if concurrent {
			mode = "concurrent"
		}
		key := mode + ":" + strings.Join(names, "+")
		b.Class(key)

		world := simnet.New()
		world.SetKeepLog(false)
		world.Watchdog = 20 * time.Second
		tp := tap.New(world)
		tp.KeepBodies = false
		pl := &c17Handler{release: make(chan struct{}), ext: true}
		close(pl.release)
		sp := &addrSecrets{m: map[string][]byte{}, h: tp.Wrap("initial", pl)}
		// every fifth burst runs against a server in proxy mode (each connection starts with a PROXY
		// line, except the ones that hang up or fall silent before sending anything)
		proxyMode := k%5 == 4
		var sopts []tq.Option
		if proxyMode {
			sopts = append(sopts, tq.SetUseProxy(true))
			b.Class("proxy-mode:" + key)
		}
		srv := kit.Start(world, tp, tap.NewLogger(false), sp, sopts...)

		var negMu sync.Mutex
		negative := map[string]float64{}
		samples := 0
		sample := func() {
			g := readGauges()
			negMu.Lock()
			samples++
			for n, v := range g {
				if v < 0 {
					if old, ok := negative[n]; !ok || v < old {
						negative[n] = v
					}
				}
			}
			negMu.Unlock()
		}
		stopSampler := make(chan struct{})
		var samplerDone sync.WaitGroup
		if concurrent {
			samplerDone.Add(1)
			go func() {
				defer samplerDone.Done()
				for {
					select {
					case <-stopSampler:
						return
					default:
						sample()
						time.Sleep(50 * time.Microsecond)
					}
				}
			}()
		}
		var openAtShutdown []*simnet.Conn
		var oaMu sync.Mutex
		runConn := func(i int) {
			rr := gen.New(seeds[i])
			addr := simnet.RemoteFor(i + 1)
			if kinds[i] != "refused" {
				sp.set(addr, secret)
			}
			c := srv.L.Dial(addr)
			if proxyMode && kinds[i] != "hangup-at-once" && kinds[i] != "idle" && kinds[i] != "refused" {
				c.Feed(proxyLine())
			}
			typ := 1 + rr.Intn(3)
			pkt := func(sid uint32, seq int, mark byte) []byte {
				return pktSpec{H: rfc8907.Header{Major: 0xc, Minor: 0, Type: typ, Seq: seq, Session: sid}, Clear: markedBody(rr, typ, mark)}.wire(secret)
			}
			send := func(w []byte) {
				c.Feed(w)
				c.WaitQuiescent()
				if !concurrent {
					sample()
				}
			}
			sid := rr.U32()
			switch kinds[i] {
			case "complete-1":
				for j := 0; j < 1+rr.Intn(3); j++ {
					send(pkt(sid+uint32(j), 1, 'x'))
				}
				c.EOF()
			case "complete-multi":
				send(pkt(sid, 1, 'C'))
				send(pkt(sid, 3, 'C'))
				send(pkt(sid, 5, 'x'))
				c.EOF()
			case "abandon-eof":
				send(pkt(sid, 1, 'C'))
				c.EOF()
			case "abandon-silence":
				send(pkt(sid, 1, 'C'))
				send(pkt(sid+1, 1, 'C'))
				c.Stall()
			case "two-sessions-one-abandoned":
				send(pkt(sid, 1, 'C'))
				send(pkt(sid+1, 1, 'C'))
				send(pkt(sid, 3, 'x'))
				c.EOF()
			case "many-open-sessions":
				n := rr.Pick(70, 129, 140)
				for j := 0; j < n; j++ {
					c.Feed(pkt(sid+uint32(j), 1, 'C'))
				}
				c.WaitQuiescent()
				if !concurrent {
					sample()
				}
				c.EOF()
			case "reply-write-fails":
				c.FailNextWrites(fmt.Errorf("write: broken pipe"))
				send(pkt(sid, 1, 'x'))
				c.EOF()
			case "reply-write-fails-then-more":
				c.FailNextWrites(fmt.Errorf("write: broken pipe"))
				send(pkt(sid, 1, 'C'))
				send(pkt(sid, 3, 'x'))
				send(pkt(sid+1, 1, 'x'))
				c.EOF()
			case "top-of-number-space-then-restart":
				// a session taken to the top of the number space, then its id shows up again with 1
				send(pkt(sid, 1, 'C'))
				send(pkt(sid, rr.Pick(251, 253), 'C'))
				send(pkt(sid, 1, 'C'))
				send(pkt(sid, 3, 'x'))
				c.EOF()
			case "walk-to-255":
				send(pkt(sid, 1, 'C'))
				send(pkt(sid, 253, 'C'))
				send(pkt(sid, 255, rr.PickS("C", "x")[0]))
				send(pkt(sid+1, 1, 'x'))
				c.EOF()
			case "session-id-reused":
				send(pkt(sid, 1, 'x'))
				send(pkt(sid, 1, 'C'))
				send(pkt(sid, 3, 'x'))
				send(pkt(sid, 1, 'x'))
				c.EOF()
			case "open-session-then-key-mismatch":
				// a login waiting for its continuation, then a packet under another key on the same
				// connection (the server answers with its notice and closes)
				send(pkt(sid, 1, 'C'))
				send(pktSpec{H: rfc8907.Header{Major: 0xc, Minor: 0, Type: 1, Seq: 1, Session: sid + 1}, Clear: []byte{1, 1, 1, 1, 200, 200, 200, 200, 0xff, 0xff, 9, 9, 9}}.wire(secret))
			case "hangup-at-once":
				c.EOF()
			case "restart-reply-then-first-number-again":
				// the handler answers RESTART (number 1 again) and stays registered; the client begins
				// again with number 1 under the same session id
				send(pkt(sid, 1, 'R'))
				send(pkt(sid, 1, rr.PickS("C", "x", "R")[0]))
				send(pkt(sid, 3, 'x'))
				c.EOF()
			case "no-reply-then-first-number-again":
				send(pkt(sid, 1, 'N'))
				send(pkt(sid, 1, rr.PickS("C", "x", "N")[0]))
				send(pkt(sid, 3, 'x'))
				c.EOF()
			case "reply-write-fails-then-first-number-again":
				c.FailNextWrites(fmt.Errorf("write: broken pipe"))
				send(pkt(sid, 1, 'C'))
				send(pkt(sid, 1, rr.PickS("C", "x")[0]))
				send(pkt(sid, 3, 'x'))
				c.EOF()
			case "even-first":
				send(pkt(sid, 2*(1+rr.Intn(100)), 'x'))
			case "seq-violation":
				send(pkt(sid, 5, 'C'))
				send(pkt(sid, rr.Pick(1, 3, 5, 6, 4), 'x'))
			case "key-mismatch":
				send(pktSpec{H: rfc8907.Header{Major: 0xc, Minor: 0, Type: 1, Seq: 1, Session: sid}, Clear: []byte{1, 1, 1, 1, 200, 200, 200, 200, 0xff, 0xff, 9, 9, 9}}.wire(secret))
			case "refused":
				c.WaitQuiescent()
			case "oversize":
				h := rfc8907.Header{Major: 0xc, Minor: 0, Type: typ, Seq: 1, Session: sid, Length: 70000}
				send(h.Encode())
			case "truncated":
				w := pkt(sid, 1, 'x')
				c.Feed(w[:len(w)-3])
				c.EOF()
			case "idle":
				c.Stall()
			case "open-at-shutdown":
				if rr.Bool() {
					send(pkt(sid, 1, 'C'))
				}
				oaMu.Lock()
				openAtShutdown = append(openAtShutdown, c)
				oaMu.Unlock()
				return
			}
			c.WaitQuiescent()
			if !concurrent {
				sample()
			}
		}
		if concurrent {
			var wg sync.WaitGroup
			for i := range kinds {
				wg.Add(1)
				go func(i int) { defer wg.Done(); runConn(i) }(i)
			}
			wg.Wait()
		} else {
			for i := range kinds {
				runConn(i)
			}
		}
		sample()
		var lateConn *simnet.Conn
		if k%4 == 1 && noServeReturn < 2 {
			// shutdown races with an arriving client: the context is cancelled while Serve is
			// parked in Accept, and a connection comes in before Accept returns
			srv.Cancel()
			lateConn = srv.L.Dial(simnet.RemoteFor(999))
			key += "+dial-after-cancel"
		}
		world.Watchdog = 8 * time.Second
		err := srv.Stop()
		close(stopSampler)
		samplerDone.Wait()
		if err != nil {
			// no Serve return; is the system quiescent by state (every connection closed)?
			allClosed := lateConn == nil || lateConn.Closed()
			oaMu.Lock()
			for _, c := range openAtShutdown {
				allClosed = allClosed && c.Closed()
			}
			oaMu.Unlock()
			if !allClosed {
				b.Inconclusive("burst %d: Serve did not return before the watchdog", caseNo)
				base = readGauges()
				continue
			}
			b.Count("bursts_judged_without_serve_return", 1)
			noServeReturn++
		}
		after := readGauges()
		sample()
		b.Count("gauge_samples", samples)
		b.Count("connections", nc)
		w := map[string]interface{}{"burst": key, "histories": kinds, "before": base, "after": after}
		if k%401 == 0 {
			b.Sample("burst", w)
		}
		for _, g := range c20Gauges {
			if v, ok := negative[g]; ok {
				b.Violate(caseNo, "C20/negative/"+g, fmt.Sprintf("gauge %s was sampled at %v during burst [%s]", g, v, key), w)
			}
			if after[g] != base[g] {
				dir := "up"
				if after[g] < base[g] {
					dir = "down"
				}
				culprit := ""
				if len(names) == 1 {
					culprit = "/" + names[0]
				}
				b.Violate(caseNo, fmt.Sprintf("C20/drift-%s/%s%s", dir, g, culprit),
					fmt.Sprintf("gauge %s is %v after burst [%s] finished and Serve returned; it was %v before", g, after[g], key, base[g]), w)
			}
		}
		base = after // judge the next burst on its own
	}
	c20Stampede(b, r, &caseNo, base)
}

// gateProvider refuses every connection, but only once the gate opens: all
// connection goroutines of a burst are released at the same instant, so their
// final bookkeeping (close, gauge updates, wait-group Done) runs concurrently.
type gateProvider struct {
	gate    chan struct{}
	waiting int32
}

func (g *gateProvider) Get(ctx context.Context, remote net.Addr) ([]byte, tq.Handler, error) {
	atomic.AddInt32(&g.waiting, 1)
	<-g.gate
	return nil, nil, fmt.Errorf("refused")
}

// c20Stampede: many small bursts whose connections all finish at the same instant.
func c20Stampede(b *mon.B, r *gen.R, caseNo *int, base map[string]float64) {
	n := b.N(1500, 60000)
	for k := 0; k < n; k++ {
		*caseNo++
		if !b.Want(*caseNo) {
			continue
		}
		nc := 2 + k%5
		world := simnet.New()
		world.SetKeepLog(false)
		world.Watchdog = 20 * time.Second
		gp := &gateProvider{gate: make(chan struct{})}
		srv := kit.Start(world, tap.New(world), tap.NewLogger(false), gp)
		conns := make([]*simnet.Conn, nc)
		for i := range conns {
			conns[i] = srv.L.Dial(simnet.RemoteFor(i + 1))
		}
		if !waitUntil(10*time.Second, func() bool { return atomic.LoadInt32(&gp.waiting) == int32(nc) }) {
			b.Inconclusive("stampede: connections did not reach admission")
			close(gp.gate)
			srv.Stop()
			continue
		}
		close(gp.gate)
		for _, c := range conns {
			c.WaitClosed()
		}
		if err := srv.Stop(); err != nil {
			b.Inconclusive("stampede: Serve did not return")
			continue
		}
		b.Eval(1)
		after := readGauges()
		if k == 0 {
			b.Class("stampede:simultaneous-finish")
		}
		b.Count("stampede_bursts", 1)
		for _, g := range c20Gauges {
			if after[g] != base[g] {
				b.Violate(*caseNo, "C20/stampede-drift/"+g, fmt.Sprintf("gauge %s is %v after %d connections finished at the same instant and Serve returned; it was %v before", g, after[g], nc, base[g]),
					map[string]interface{}{"connections": nc, "before": base, "after": after})
				base[g] = after[g]
			}
		}
	}
}

var _ = kit.ErrWatchdog
