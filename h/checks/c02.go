package checks

import (
	"bytes"
	"fmt"

	tq "github.com/facebookincubator/tacquito"
	"verif/h/gen"
	"verif/h/mon"
	"verif/h/rfc8907"
)

// C02 — encode/decode is lossless; unrepresentable values are refused.

func init() {
	mon.Register(&mon.Check{
		ID:        "C02",
		Boost:     4,
		Batches:   func(tier string) int { return 16 },
		Run:       runC02,
		Technique: "round-trip and refusal runtime monitor over generated values on both sides of every wire-width boundary, plus decode-first round trips over a hostile byte corpus",
		Rule: "cases: per type, every subset of empty/non-empty optional fields; each text field stretched to 254,255,256,257,65535,65536,65537,70000 in turn; argument counts 254/255/256/300; argument lengths 0,1,2,255,256,300; invalid enum members; non-ASCII in ASCII-only fields; headers over seq/type/version/length edges; decode-first inputs (truncations, length rewrites, enum rewrites, bit flips, random bytes). " +
			"A class is (direction, layout, stress kind, outcome); distinct_nontrivial counts classes seen",
		Assumptions:      []string{"a Packet value is one with Header.Length == len(Body) (the invariant every constructor and the stream writer establish)"},
		MinClasses:       func(tier string) int { return 120 },
		CrashIsViolation: true,
	})
}

func isASCII(b []byte) bool {
	for _, c := range b {
		if c > 0x7f {
			return false
		}
	}
	return true
}

func member(xs []int, x int) bool {
	for _, y := range xs {
		if x == y {
			return true
		}
	}
	return false
}

// rfcRule returns the first validation rule (as listed in the property's
// anchors: enum membership, ASCII-only text, Arg 2..255, AcctArg 0..255) that
// v breaks, or "".
func rfcRule(v *rfc8907.Value) string {
	for _, f := range intFields(v.Layout) {
		x := v.Ints[f]
		if f == "flags" {
			if v.Layout == rfc8907.AcctRequest && x&0x04 != 0 && x&0x08 != 0 {
				return "flags:stop+watchdog"
			}
			continue
		}
		if !member(enumOf(v.Layout, f), x) {
			return "enum:" + f
		}
	}
	asciiOnly := map[string][]string{
		rfc8907.AuthenStart:    {"user", "port", "rem_addr"},
		rfc8907.AuthenContinue: {"user_msg"},
		rfc8907.AuthorRequest:  {"user", "port", "rem_addr"},
		rfc8907.AuthorReply:    {"server_msg", "data"},
		rfc8907.AcctRequest:    {"user", "port", "rem_addr"},
		rfc8907.AcctReply:      {"server_msg", "data"},
	}
	for _, f := range asciiOnly[v.Layout] {
		if !isASCII(v.Texts[f]) {
			return "ascii:" + f
		}
	}
	if v.Layout == rfc8907.AuthenStart && v.Ints["authen_type"] == 1 && !isASCII(v.Texts["data"]) {
		return "ascii:data"
	}
	if rfc8907.HasArgs(v.Layout) {
		lo, hi := argLenBounds(v.Layout)
		for _, a := range v.Args {
			if !isASCII(a) {
				return "ascii:arg"
			}
			if len(a) < lo || len(a) > hi {
				return "arglen"
			}
		}
	}
	return ""
}

type validator interface{ Validate() error }

// unfitField names the first element of v that exceeds its wire width.
func unfitField(v *rfc8907.Value) string {
	for _, tf := range textFields(v.Layout) {
		if len(v.Texts[tf.Name]) > tf.Max {
			return tf.Name
		}
	}
	if len(v.Args) > 255 {
		return "arg_cnt"
	}
	for _, a := range v.Args {
		if len(a) > 255 {
			return "arg_len"
		}
	}
	return "int"
}

// c02Value judges one value in the encode-first direction.
func c02Value(b *mon.B, idx int, v *rfc8907.Value, stress string) {
	b.Eval(1)
	lib := toLib(v)
	enc, err := lib.MarshalBinary()
	fits := v.Fits()
	if err != nil {
		b.Class("encode/%s/%s/refused", v.Layout, stress)
		if fits != nil {
			b.Count("unrepresentable_refused", 1)
		}
		return
	}
	b.Class("encode/%s/%s/accepted", v.Layout, stress)
	if fits != nil {
		b.Violate(idx, fmt.Sprintf("C02/encodes-unrepresentable/%s/%s", v.Layout, unfitField(v)),
			fmt.Sprintf("%s encoded without error although %v; the bytes cannot carry the value", v.Layout, fits),
			map[string]interface{}{"value": describe(v), "bytes": hexs(enc)})
		// still look at what comes back, for the witness
		d := newLib(v.Layout)
		if derr := tq.Unmarshal(enc, d); derr == nil {
			if f := diffValues(fromLib(d), v); f != "" {
				b.Count("silently_mangled", 1)
			}
		}
		return
	}
	if verr := lib.(validator).Validate(); verr != nil {
		b.Violate(idx, fmt.Sprintf("C02/encodes-invalid-by-own-rules/%s", v.Layout),
			fmt.Sprintf("%s encoded without error although its own Validate() says: %v", v.Layout, verr), map[string]interface{}{"value": describe(v)})
		return
	}
	if rule := rfcRule(v); rule != "" {
		b.Violate(idx, fmt.Sprintf("C02/encodes-invalid/%s/%s", v.Layout, rule),
			fmt.Sprintf("%s encoded without error although it breaks validation rule %s", v.Layout, rule), map[string]interface{}{"value": describe(v)})
		return
	}
	d := newLib(v.Layout)
	if derr := tq.Unmarshal(enc, d); derr != nil {
		b.Violate(idx, fmt.Sprintf("C02/roundtrip-decode-fails/%s", v.Layout),
			fmt.Sprintf("%s: bytes the encoder produced are refused by the decoder: %v", v.Layout, derr), map[string]interface{}{"value": describe(v), "bytes": hexs(enc)})
		return
	}
	if f := diffValues(fromLib(d), v); f != "" {
		b.Violate(idx, fmt.Sprintf("C02/roundtrip-differs/%s/%s", v.Layout, f),
			fmt.Sprintf("%s: encode then decode changed field %s", v.Layout, f), map[string]interface{}{"value": describe(v), "decoded": describe(fromLib(d)), "bytes": hexs(enc)})
		return
	}
	b.Count("roundtrips_identical", 1)
}

// c02Bytes judges one byte string in the decode-first direction.
func c02Bytes(b *mon.B, idx int, layout, kind string, in []byte) {
	b.Eval(1)
	d := newLib(layout)
	if err := tq.Unmarshal(in, d); err != nil {
		b.Class("decode/%s/%s/refused", layout, kind)
		return
	}
	b.Class("decode/%s/%s/accepted", layout, kind)
	v1 := fromLib(d)
	enc, err := d.MarshalBinary()
	if err != nil {
		b.Violate(idx, fmt.Sprintf("C02/decoded-value-not-encodable/%s", layout),
			fmt.Sprintf("%s: bytes decode without error but the value is refused by the encoder: %v", layout, err), map[string]interface{}{"input": hexs(in), "decoded": describe(v1)})
		return
	}
	d2 := newLib(layout)
	if err := tq.Unmarshal(enc, d2); err != nil {
		b.Violate(idx, fmt.Sprintf("C02/reencoded-bytes-refused/%s", layout),
			fmt.Sprintf("%s: decode, encode, decode fails: %v", layout, err), map[string]interface{}{"input": hexs(in), "reencoded": hexs(enc)})
		return
	}
	if f := diffValues(fromLib(d2), v1); f != "" {
		b.Violate(idx, fmt.Sprintf("C02/decode-encode-decode-differs/%s/%s", layout, f),
			fmt.Sprintf("%s: decode, encode, decode changed field %s", layout, f), map[string]interface{}{"input": hexs(in), "reencoded": hexs(enc)})
		return
	}
	b.Count("decode_first_roundtrips", 1)
}

func c02Header(b *mon.B, idx int, major, minor, typ, seq, flags int, session, length uint32) {
	b.Eval(1)
	h := &tq.Header{Version: tq.Version{MajorVersion: uint8(major), MinorVersion: uint8(minor)}, Type: tq.HeaderType(typ),
		SeqNo: tq.SequenceNumber(seq), SessionID: tq.SessionID(session), Flags: tq.HeaderFlag(flags), Length: length}
	enc, err := h.MarshalBinary()
	representable := major == 0xc && (minor == 0 || minor == 1) && typ >= 1 && typ <= 3 && seq >= 1 && seq <= 255 && length <= 65536 && major < 256 && minor < 256
	if err != nil {
		b.Class("encode/header/refused/%v", representable)
		return
	}
	b.Class("encode/header/accepted/seq%s", lenBucket(seq))
	if !representable {
		b.Violate(idx, "C02/encodes-unrepresentable/header", fmt.Sprintf("header major=%#x minor=%d type=%d seq=%d length=%d encoded without error to %x", major, minor, typ, seq, length, enc), nil)
		return
	}
	var d tq.Header
	if err := tq.Unmarshal(enc, &d); err != nil {
		b.Violate(idx, "C02/roundtrip-decode-fails/header", fmt.Sprintf("header bytes %x refused: %v", enc, err), nil)
		return
	}
	want := *h
	if seq == 2 {
		want.Flags |= tq.SingleConnect
	}
	if d != want {
		b.Violate(idx, "C02/roundtrip-differs/header", fmt.Sprintf("header %+v came back as %+v", want, d), nil)
		return
	}
	b.Count("roundtrips_identical", 1)
}

func c02Packet(b *mon.B, idx int, r *gen.R, bodyLen int) {
	b.Eval(1)
	body := r.Bytes(bodyLen)
	if body == nil {
		body = []byte{}
	}
	h := &tq.Header{Version: tq.Version{MajorVersion: 0xc, MinorVersion: uint8(r.Intn(2))}, Type: tq.HeaderType(1 + r.Intn(3)),
		SeqNo: tq.SequenceNumber(1 + r.Intn(255)), SessionID: tq.SessionID(r.U32()), Flags: tq.HeaderFlag(r.Intn(256)), Length: uint32(bodyLen)}
	p := &tq.Packet{Header: h, Body: body}
	enc, err := p.MarshalBinary()
	if err != nil {
		b.Class("encode/packet/refused/%s", lenBucket(bodyLen))
		return
	}
	b.Class("encode/packet/accepted/%s", lenBucket(bodyLen))
	if bodyLen > 65536 {
		b.Violate(idx, "C02/encodes-unrepresentable/packet", fmt.Sprintf("packet with %d body bytes encoded without error", bodyLen), nil)
		return
	}
	var d tq.Packet
	if err := tq.Unmarshal(enc, &d); err != nil {
		b.Violate(idx, "C02/roundtrip-decode-fails/packet", fmt.Sprintf("packet (%d body bytes) refused: %v", bodyLen, err), nil)
		return
	}
	want := *h
	if h.SeqNo == 2 {
		want.Flags |= tq.SingleConnect
	}
	if d.Header == nil || *d.Header != want || !bytes.Equal(d.Body, body) {
		b.Violate(idx, "C02/roundtrip-differs/packet", "packet came back different", map[string]interface{}{"bytes": hexs(enc)})
		return
	}
	// decode-first: what decoded without error re-encodes to the same bytes
	re, err := d.MarshalBinary()
	wantRe := enc
	if h.SeqNo == 2 {
		// the header decoder sets the single-connect flag on every packet numbered 2 (deliberate,
		// see header.go): the decoded value carries it, and so does its encoding
		wantRe = append([]byte{}, enc...)
		wantRe[3] |= byte(tq.SingleConnect)
	}
	if err != nil || !bytes.Equal(re, wantRe) {
		b.Violate(idx, "C02/decode-encode-differs/packet", fmt.Sprintf("a packet with %d body bytes decoded without error but the decoded value does not re-encode to the same bytes (error: %v)", bodyLen, err), map[string]interface{}{"bytes": hexs(enc)})
		return
	}
	b.Count("roundtrips_identical", 1)
}

func runC02(b *mon.B) {
	r := gen.New(uint64(b.Seed), 0xC02, uint64(b.Index))
	nb := 16
	idx := 0
	next := func() (int, bool) {
		i := idx
		idx++
		return i, i%nb == b.Index && b.Want(i)
	}
	stretch := []int{254, 255, 256, 257, 65535, 65536, 65537, 70000}
	for _, layout := range allLayouts {
		rl := gen.New(uint64(b.Seed), 0xC02, uint64(len(layout)), uint64(layout[2]), uint64(layout[len(layout)-2]))
		tfs := textFields(layout)
		// every subset of empty / non-empty optional fields
		nopt := len(tfs)
		if rfc8907.HasArgs(layout) {
			nopt++
		}
		for mask := 0; mask < 1<<uint(nopt); mask++ {
			for rep := 0; rep < b.N(3, 20); rep++ {
				v := smallValue(rl, layout)
				at := v.Ints["authen_type"]
				for k, tf := range tfs {
					if mask&(1<<uint(k)) == 0 {
						v.Texts[tf.Name] = nil
					} else {
						v.Texts[tf.Name] = fillText(rl, layout, tf.Name, 1+rl.Intn(9), at, false)
					}
				}
				if rfc8907.HasArgs(layout) {
					v.Args = nil
					if mask&(1<<uint(len(tfs))) != 0 {
						lo, _ := argLenBounds(layout)
						for k, n := 0, 1+rl.Intn(3); k < n; k++ {
							v.Args = append(v.Args, makeArg(rl, lo+1+rl.Intn(9)))
						}
					}
				}
				if i, ok := next(); ok {
					c02Value(b, i, v, fmt.Sprintf("optmask%d", mask))
				}
			}
		}
		// each text field on both sides of each boundary
		for _, tf := range tfs {
			for _, n := range stretch {
				for rep := 0; rep < b.N(1, 4); rep++ {
					v := smallValue(rl, layout)
					v.Texts[tf.Name] = fillText(rl, layout, tf.Name, n, v.Ints["authen_type"], false)
					if i, ok := next(); ok {
						c02Value(b, i, v, fmt.Sprintf("%s=%d", tf.Name, n))
					}
				}
			}
		}
		// argument count and argument length boundaries
		if rfc8907.HasArgs(layout) {
			for _, cnt := range []int{254, 255, 256, 257, 300, 511, 512} {
				v := smallValue(rl, layout)
				v.Args = nil
				for k := 0; k < cnt; k++ {
					v.Args = append(v.Args, makeArg(rl, 2+k%5))
				}
				if i, ok := next(); ok {
					c02Value(b, i, v, fmt.Sprintf("argcnt=%d", cnt))
				}
			}
			for _, al := range []int{0, 1, 2, 254, 255, 256, 257, 300, 512} {
				for _, where := range []int{0, 1, 2} {
					v := smallValue(rl, layout)
					v.Args = [][]byte{makeArg(rl, 4), makeArg(rl, 5), makeArg(rl, 6)}
					v.Args[where] = makeArg(rl, al)
					if i, ok := next(); ok {
						c02Value(b, i, v, fmt.Sprintf("arglen=%d", al))
					}
				}
			}
		}
		// invalid enum members, non-ASCII in ASCII-only fields
		for _, f := range intFields(layout) {
			for x := 0; x < 256; x++ {
				if !b.Thorough() && x > 20 && x%17 != 0 && x != 255 {
					continue
				}
				v := smallValue(rl, layout)
				v.Ints[f] = x
				if i, ok := next(); ok {
					c02Value(b, i, v, "enum:"+f)
				}
			}
		}
		for _, tf := range tfs {
			for rep := 0; rep < b.N(2, 10); rep++ {
				v := smallValue(rl, layout)
				t := fillText(rl, layout, tf.Name, 2+rl.Intn(10), 1, false)
				t[rl.Intn(len(t))] = byte(0x80 + rl.Intn(128))
				v.Texts[tf.Name] = t
				if i, ok := next(); ok {
					c02Value(b, i, v, "nonascii:"+tf.Name)
				}
			}
		}
		if rfc8907.HasArgs(layout) {
			v := smallValue(rl, layout)
			a := makeArg(rl, 8)
			a[3] = 0xc3
			v.Args = append(v.Args, a)
			if i, ok := next(); ok {
				c02Value(b, i, v, "nonascii:arg")
			}
		}
	}
	// headers
	for _, major := range []int{0, 0xb, 0xc, 0xd, 0xf, 0x1c} {
		for _, minor := range []int{0, 1, 2, 15, 16, 17} {
			for _, typ := range []int{0, 1, 2, 3, 4, 255} {
				for _, seq := range []int{0, 1, 2, 3, 254, 255, 256, 257, 300, 511, 512, 65535} {
					for _, ln := range []uint32{0, 1, 65535, 65536, 65537, 1 << 31, 1<<32 - 1} {
						if i, ok := next(); ok {
							c02Header(b, i, major, minor, typ, seq, int(uint32(i)*7)&0xff, uint32(i)*2654435761, ln)
						}
					}
				}
			}
		}
	}
	for seq := 0; seq <= 300; seq++ {
		for fl := 0; fl < 256; fl += 5 {
			if i, ok := next(); ok {
				c02Header(b, i, 0xc, seq&1, 1+seq%3, seq, fl, uint32(i)*40503, uint32(seq*200))
			}
		}
	}
	// packets
	for _, n := range []int{0, 1, 2, 15, 16, 17, 255, 256, 65535, 65536, 65537, 70000} {
		for rep := 0; rep < b.N(1, 4); rep++ {
			if i, ok := next(); ok {
				c02Packet(b, i, r, n)
			}
		}
	}
	// random values with one random stress
	for k := 0; k < b.N(1200, 25000); k++ {
		layout := allLayouts[r.Intn(len(allLayouts))]
		v := randomValue(r, layout)
		stress := "random"
		if r.Chance(1, 3) {
			tfs := textFields(layout)
			tf := tfs[r.Intn(len(tfs))]
			n := tf.Max + r.Pick(-1, 0, 1, 2, 100)
			v.Texts[tf.Name] = fillText(r, layout, tf.Name, n, v.Ints["authen_type"], false)
			stress = "random-stretch"
		}
		if b.Want(1_000_000 + k) {
			c02Value(b, 1_000_000+k, v, stress)
		}
	}
	// decode-first: hostile corpus
	cnt := 0
	emitFor := func(layout string) func(kind string, in []byte) {
		return func(kind string, in []byte) {
			cnt++
			if b.Want(2_000_000 + cnt) {
				c02Bytes(b, 2_000_000+cnt, layout, kind, in)
			}
		}
	}
	for k := 0; k < b.N(12, 200); k++ {
		layout := allLayouts[(k+b.Index)%len(allLayouts)]
		v := randomValue(r, layout)
		if len(v.Args) > 40 {
			v.Args = v.Args[:40]
		}
		for _, tf := range textFields(layout) {
			if len(v.Texts[tf.Name]) > 600 {
				v.Texts[tf.Name] = v.Texts[tf.Name][:600]
			}
		}
		hostileBodies(r, v, false, emitFor(layout))
	}
	for _, layout := range allLayouts {
		randomBodies(r, b.N(300, 6000), emitFor(layout))
	}
}
