package checks

import (
	"bytes"
	"encoding/base64"
	"encoding/hex"
	"fmt"
	"strings"
	"sync"
	"time"

	"github.com/facebookincubator/tacquito/cmds/server/config"
	srvlog "github.com/facebookincubator/tacquito/cmds/server/log"
	"verif/h/gen"
	"verif/h/mon"
	"verif/h/refsrv"
	"verif/h/rfc8907"
	"verif/h/tap"
)

// C18 — passwords and shared secrets never reach the logs (taint-token monitor).

func init() {
	mon.Register(&mon.Check{
		ID:        "C18",
		Boost:     12,
		Batches:   func(tier string) int { return 16 },
		Run:       runC18,
		Technique: "taint-token runtime monitor: every login presents a unique random password token and every scope has a unique random secret token; an injected logger records all rendered messages, Record maps minus the keys the call marks as obscured and the fields selected for retention, and forwards to the stock cmds/server/log.Logger at debug level writing to a buffer; everything captured is searched for the tokens (plain, %q, hex, base64)",
		Rule: "sessions: every action x authen type x service x minor version START carrying the token in data; ASCII logins whose GETPASS answer is the token (user in START or in CONTINUE; known/unknown user; right/wrong password); PAP right/wrong/unknown user/minor 0; abort at each step; START mid-exchange; CONTINUE to a fresh session; connections using a wrong key; authorization and accounting of the same users. " +
			"A class is (flow, START action/type/minor or step, user kind, outcome status); distinct_nontrivial counts classes",
		Assumptions: []string{"the stock logger runs at level 30 (debug) in half of the batches and at levels 10 and 20 in a quarter each; one logger per server, as deployed",
			"a value given to Record under a key that the same call lists as to be obscured is not a leak (as the property states)"},
		MinClasses: func(tier string) int { return 120 },
	})
}

type syncBuf struct {
	mu sync.Mutex
	b  bytes.Buffer
}

func (s *syncBuf) Write(p []byte) (int, error) {
	s.mu.Lock()
	defer s.mu.Unlock()
	return s.b.Write(p)
}

func (s *syncBuf) take() string {
	s.mu.Lock()
	defer s.mu.Unlock()
	out := s.b.String()
	s.b.Reset()
	return out
}

func tokenForms(tok string) []string {
	// plain, hex, base64, and both halves of the token on their own (a leak that is
	// truncated or escaped around a special byte still shows one half)
	h := len(tok) / 2
	return []string{tok, hex.EncodeToString([]byte(tok)), base64.StdEncoding.EncodeToString([]byte(tok)), base64.RawURLEncoding.EncodeToString([]byte(tok)), tok[:h], tok[h:]}
}

func runC18(b *mon.B) {
	r := gen.New(uint64(b.Seed), 0xC18, uint64(b.Index))
	// configuration: users whose passwords are tokens
	sc := richConfig(r, 1)
	secretTok := "SECRET" + r.Alnum(18)
	sc.Scopes[0].Key = secretTok
	sc.Cfg.Secrets[0].Secret.Key = secretTok
	// a prefix list with entries the CIDR parser rejects next to the valid one
	sc.Cfg.Secrets[0].Options = map[string]string{"prefixes": `["10.0.0.0/16", "2001:db8::/129", "not-a-prefix", ""]`}
	nTokUsers := b.N(10, 40)
	tokUsers := make([]string, nTokUsers)
	tokPw := map[string]string{}
	for i := range tokUsers {
		name := fmt.Sprintf("tok%d", i)
		pw := "PW" + r.Alnum(20)
		tokUsers[i] = name
		tokPw[name] = pw
		u := config.User{Name: name, Scopes: []string{"scope0"}, Authenticator: refsrv.Bcrypt(pw), Accounter: refsrv.FileAccounter(), Commands: []config.Command{permitAll()}}
		if i%3 == 0 { // keychain path
			u.Authenticator = &config.Authenticator{Type: config.BCRYPT}
			sc.Keys.Hashes[name] = refsrv.RawHash(pw)
		}
		sc.Cfg.Users = append(sc.Cfg.Users, u)
		sc.Users[name] = &userInfo{Name: name, Password: pw, Cred: "hash", Accounter: "file"}
	}
	ref, err := refsrv.Start(sc.Cfg, refsrv.Options{ViaYAML: b.Index%2 == 0, Keys: sc.Keys, KeepLogs: true})
	if err != nil {
		b.Inconclusive("configuration did not load: %v", err)
		return
	}
	defer ref.Close()
	ref.Net.SetKeepLog(false)
	stock := &syncBuf{}
	// the stock logger runs at debug level in half of the batches and at the error / info levels in
	// the others: what is masked at one level must be masked at the others too (one logger per
	// server, as deployed: the stock Record masks the caller's map in place)
	stockLevel := []int{30, 10, 30, 20}[b.Index%4]
	b.Class("stock-logger-level-%d", stockLevel)
	ref.Log.Forward = stockLogger{srvlog.New(stockLevel, stock)}
	// what the loader logged while loading must not contain the scope secret either
	key := []byte(secretTok)
	caseNo := 0

	search := func(label string, tokens map[string]string, entries []tap.LogEntry, stockText string, class string) {
		if i := strings.Index(label, "("); i > 0 {
			label = label[:i] // the signature names the flow, not its parameters
		}
		for what, tok := range tokens {
			for fi, form := range tokenForms(tok) {
				formName := []string{"plain", "hex", "base64", "base64url", "first-half", "second-half"}[fi]
				for _, e := range entries {
					if strings.Contains(e.Text, form) {
						b.Violate(caseNo, fmt.Sprintf("C18/%s-in-log/%s/%s", what, e.Level, label),
							fmt.Sprintf("the %s token (%s form) appears in a %s logger call during [%s]", what, formName, e.Level, label),
							map[string]interface{}{"flow": class, "logger_call": e.Level, "captured": clip(e.Text), "token": tok})
						return
					}
				}
				if strings.Contains(stockText, form) {
					b.Violate(caseNo, fmt.Sprintf("C18/%s-in-stock-logger-output/%s", what, label),
						fmt.Sprintf("the %s token (%s form) appears in the output of cmds/server/log.Logger at debug level during [%s]", what, formName, label),
						map[string]interface{}{"flow": class, "token": tok})
					return
				}
			}
		}
	}
	// loading phase
	search("configuration-load", map[string]string{"shared-secret": secretTok}, ref.Log.Reset(), stock.take(), "load")

	failWriteAt := -1 // index of the packet whose reply write is made to fail (-1: none)
	runSession := func(label, class string, pw string, pkts []pktPlan, useKey []byte) {
		failAt := failWriteAt
		failWriteAt = -1
		caseNo++
		if !b.Want(caseNo) {
			return
		}
		b.Eval(1)
		rc := newRefConn(ref, caseNo%60000+1, key)
		rc.key = useKey
		sid := r.U32()
		last := -1
		for i, p := range pkts {
			h := rfc8907.Header{Major: 0xc, Minor: p.Minor, Type: p.Type, Seq: 1 + 2*i, Flags: p.Flags, Session: sid}
			if p.SeqOverride != 0 {
				h.Seq = p.SeqOverride
			}
			if i == failAt {
				rc.c.FailNextWrites(fmt.Errorf("write: connection reset by peer"))
			}
			res := rc.send(h, p.Body, true)
			if res.Err != nil {
				b.Inconclusive("watchdog in %s", label)
				break
			}
			if len(res.Replies) > 0 {
				last = res.Replies[len(res.Replies)-1].status()
			}
			if res.State.Closed {
				break
			}
		}
		rc.c.EOF()
		rc.c.WaitClosed()
		ref.Net.Forget(rc.c)
		entries := ref.Log.Reset()
		b.Count("logger_calls_captured", len(entries))
		b.Class("%s/status%d", class, last)
		toks := map[string]string{"shared-secret": secretTok}
		if pw != "" {
			toks["password"] = pw
		}
		st := stock.take()
		b.Count("stock_logger_bytes", len(st))
		search(label, toks, entries, st, class)
		if caseNo%397 == 0 && len(entries) > 0 {
			b.Sample("captured", map[string]interface{}{"flow": class, "logger_calls": len(entries), "example": clip(entries[len(entries)-1].Text)})
		}
	}

	// two ASCII logins multiplexed on one connection: A is taken to the password prompt, B is started,
	// then A's password arrives (and further packets of both); packets are (session index, plan)
	runInterleaved := func(label string, pwA, pwB string, seqs [][2]int, plans [2][]pktPlan) {
		caseNo++
		if !b.Want(caseNo) {
			return
		}
		b.Eval(1)
		rc := newRefConn(ref, caseNo%60000+1, key)
		sids := [2]uint32{r.U32(), r.U32()}
		pos := [2]int{}
		for _, st := range seqs {
			si := st[0]
			if pos[si] >= len(plans[si]) {
				continue
			}
			p := plans[si][pos[si]]
			h := rfc8907.Header{Major: 0xc, Minor: p.Minor, Type: p.Type, Seq: 1 + 2*pos[si], Flags: p.Flags | st[1], Session: sids[si]}
			pos[si]++
			res := rc.send(h, p.Body, true)
			if res.Err != nil {
				b.Inconclusive("watchdog in %s", label)
				break
			}
			if res.State.Closed {
				break
			}
		}
		rc.c.EOF()
		rc.c.WaitClosed()
		ref.Net.Forget(rc.c)
		entries := ref.Log.Reset()
		b.Count("logger_calls_captured", len(entries))
		b.Class("%s", label)
		st := stock.take()
		b.Count("stock_logger_bytes", len(st))
		search(label, map[string]string{"shared-secret": secretTok, "password": pwA, "second-password": pwB}, entries, st, label)
	}

	pickUser := func() (string, string, string) { // name, its real password (may be ""), kind
		switch r.Intn(5) {
		case 0:
			return "nobody" + r.Alnum(3), "", "unknown"
		case 1:
			return "carol", "", "no-authenticator"
		}
		u := tokUsers[r.Intn(len(tokUsers))]
		return u, tokPw[u], "known"
	}
	freshTok := func() string { return "PW" + r.Alnum(20) }

	// ---- every action x type x service x minor START carrying the token in data
	idx := 0
	for _, action := range rfc8907.Actions {
		for _, atype := range rfc8907.AuthenTypes {
			for _, service := range rfc8907.Services {
				for minor := 0; minor <= 1; minor++ {
					idx++
					if idx%16 != b.Index && !b.Thorough() {
						continue
					}
					user, real, kind := pickUser()
					pw := freshTok()
					if real != "" && r.Bool() {
						pw = real
					}
					label := fmt.Sprintf("start(action%d,type%d,minor%d)", action, atype, minor)
					runSession(label, fmt.Sprintf("start/a%d/t%d/m%d/%s", action, atype, minor, kind), pw,
						[]pktPlan{{Type: 1, Minor: minor, Body: bAuthenStart(action, r.Intn(16), atype, service, user, "tty", "192.0.2.7", pw)}}, key)
				}
			}
		}
	}
	// ---- a keychain that takes more than a second to answer (remote keychain under load): the
	// handler of the password packet is slow; whatever the server does about slow handlers must
	// not put the password in a log. Few sessions: each costs a second of real time.
	for k := 0; k < b.N1(2, 6); k++ {
		u := tokUsers[3*r.Intn((len(tokUsers)+2)/3)] // keychain users are the ones with i%3 == 0
		sc.Keys.SetSlow(u, 1100*time.Millisecond)
		if k%2 == 0 {
			runSession("pap-slow-keychain", "pap-slow-keychain", tokPw[u], papLogin(u, tokPw[u], 1).Pkts, key)
		} else {
			runSession("ascii-slow-keychain", "ascii-slow-keychain", tokPw[u], asciiLogin(u, true, tokPw[u], 0).Pkts, key)
		}
		sc.Keys.SetSlow(u, 0)
	}
	// ---- ASCII and PAP flows
	for k := 0; k < b.N(120, 6000); k++ {
		user, real, kind := pickUser()
		pw := freshTok()
		right := real != "" && r.Bool()
		if right {
			pw = real
		}
		if k%9 == 4 {
			userB, realB, _ := pickUser()
			pwB := freshTok()
			if realB != "" && r.Bool() {
				pwB = realB
			}
			a := asciiLogin(user, false, pw, 0)       // START, user name, password
			bb := asciiLogin(userB, r.Bool(), pwB, 0) // START(+user), [user name,] password
			orders := [][][2]int{
				{{0, 0}, {0, 0}, {1, 0}, {0, 0}, {1, 0}, {1, 0}},
				{{0, 4}, {1, 4}, {0, 4}, {1, 4}, {0, 4}, {1, 4}},
				{{1, 0}, {0, 0}, {0, 0}, {1, 0}, {0, 0}, {1, 0}},
			}
			runInterleaved("two-ascii-logins-interleaved", pw, pwB, orders[r.Intn(len(orders))], [2][]pktPlan{a.Pkts, bb.Pkts})
			continue
		}
		flow := r.Intn(14)
		switch flow {
		case 13:
			// an empty answer at a prompt, then the real answer (twice: whichever prompt the
			// server is at by then)
			rcp := asciiLogin(user, r.Bool(), pw, 0)
			n := len(rcp.Pkts)
			empty := pktPlan{Type: 1, Body: bAuthenContinue(0, "", "")}
			at := n - 1 // before the password
			if r.Chance(1, 3) && n == 3 {
				at = 1 // before the user name
			}
			pk := append(append(append([]pktPlan{}, rcp.Pkts[:at]...), empty), rcp.Pkts[at:]...)
			pk = append(pk, rcp.Pkts[n-1])
			runSession("ascii-empty-answer-then-password", fmt.Sprintf("ascii-empty-answer@%d/%s", at, kind), pw, pk, key)
		case 12:
			// the write of the final reply fails (the peer reset the connection)
			if r.Bool() {
				rcp := papLogin(user, pw, 1)
				failWriteAt = 0
				runSession("pap-final-reply-write-fails", "pap-final-reply-write-fails/"+kind, pw, rcp.Pkts, key)
			} else {
				rcp := asciiLogin(user, true, pw, 0)
				failWriteAt = 1
				runSession("ascii-final-reply-write-fails", "ascii-final-reply-write-fails/"+kind, pw, rcp.Pkts, key)
			}
		case 9:
			// a password with an octet above 0x7f (latin-1 umlaut): the CONTINUE is laid out by
			// hand, the server's decoder refuses it
			pw = "PW" + r.Alnum(10) + "\xe4" + r.Alnum(10)
			rcp := asciiLogin(user, r.Bool(), pw, 0)
			runSession("ascii-non-ascii-password", "ascii-non-ascii-password/"+kind, pw, rcp.Pkts, key)
		case 10:
			// the password CONTINUE arrives with a stale or even sequence number
			rcp := asciiLogin(user, true, pw, 0)
			rcp.Pkts[1].SeqOverride = r.Pick(1, 2, 4)
			runSession("password-with-bad-sequence-number", "password-with-bad-sequence-number/"+kind, pw, rcp.Pkts, key)
		case 11:
			// PAP with binary octets in the password (data may carry any octets for PAP)
			pw = "PW" + r.Alnum(10) + "\xff\x00\x80" + r.Alnum(10)
			rcp := papLogin(user, pw, r.Intn(2))
			runSession("pap-binary-password", "pap-binary-password/"+kind, pw, rcp.Pkts, key)
		case 0, 1:
			inStart := flow == 0
			rcp := asciiLogin(user, inStart, pw, 0)
			runSession("ascii-login", fmt.Sprintf("ascii/user-in-start=%v/%s/right=%v", inStart, kind, right), pw, rcp.Pkts, key)
		case 2:
			at := 2 + r.Intn(2)
			rcp := asciiLogin(user, r.Bool(), pw, at)
			runSession("ascii-abort", fmt.Sprintf("ascii-abort@%d/%s", at, kind), pw, rcp.Pkts, key)
		case 3:
			rcp := papLogin(user, pw, 1)
			runSession("pap-minor1", fmt.Sprintf("pap/minor1/%s/right=%v", kind, right), pw, rcp.Pkts, key)
		case 4:
			rcp := papLogin(user, pw, 0)
			runSession("pap-minor0", fmt.Sprintf("pap/minor0/%s", kind), pw, rcp.Pkts, key)
		case 5:
			// START (with the password in data) sent where a CONTINUE is expected
			rcp := asciiLogin(user, false, pw, 0)
			rcp.Pkts[2] = pktPlan{Type: 1, Minor: 1, Body: bAuthenStart(1, 1, 2, 1, user, "p", "r", pw)}
			runSession("start-mid-exchange", "start-mid-exchange/"+kind, pw, rcp.Pkts, key)
		case 6:
			// password CONTINUE carrying data as well, and an undecodable follow-up
			rcp := asciiLogin(user, true, pw, 0)
			rcp.Pkts[1].Body = bAuthenContinue(0, pw, "extra")
			rcp.Pkts = append(rcp.Pkts, pktPlan{Type: 1, Flags: 1, Body: []byte{1, 2, 3}})
			runSession("ascii-with-data", "ascii-with-data/"+kind, pw, rcp.Pkts, key)
		case 7:
			// a client holding the wrong key: the server must not log its own secret
			wrong := []byte("client-side-" + r.Alnum(6))
			rcp := papLogin(user, pw, 1)
			runSession("wrong-key", "wrong-key/"+kind, "", rcp.Pkts, wrong)
		case 8:
			// authorization and accounting traffic of the same users next to logins
			pk := []pktPlan{authorCmd(user, "show", "version").Pkts[0], acct(user, 2, "task_id=1").Pkts[0], papLogin(user, pw, 1).Pkts[0]}
			runSession("mixed-aaa", "mixed-aaa/"+kind, pw, pk, key)
		}
	}
}

// stockLogger adapts cmds/server/log.Logger (value receiver methods) to tap.FullLogger.
type stockLogger struct{ *srvlog.Logger }
