package checks

import (
	"context"
	"fmt"
	"net"
	"sync"

	tq "github.com/facebookincubator/tacquito"
	"verif/h/kit"
	"verif/h/simnet"
	"verif/h/tap"
)

// planStep is what the scripted handler does for one packet of a session.
type planStep struct {
	Reply    tq.EncoderDecoder // nil: no reply
	Next     bool              // register a continuation (the planner itself)
	UseWrite bool              // reply through Response.Write with a hand-built header instead of Reply
	// First, when set, is replied before Reply (used for "first reply cannot be
	// sent, the handler falls back to another one").
	First tq.EncoderDecoder
}

// planner is a scripted Handler: per session id a list of steps, consumed one
// per packet of that session. A session without a plan gets a small reply and
// no continuation.
type planner struct {
	mu    sync.Mutex
	plans map[uint32][]planStep
}

func newPlanner() *planner { return &planner{plans: map[uint32][]planStep{}} }

func (p *planner) set(session uint32, steps ...planStep) {
	p.mu.Lock()
	p.plans[session] = steps
	p.mu.Unlock()
}

func (p *planner) Handle(resp tq.Response, req tq.Request) {
	p.mu.Lock()
	steps := p.plans[uint32(req.Header.SessionID)]
	var st planStep
	if len(steps) > 0 {
		st = steps[0]
		if len(steps) == 1 {
			delete(p.plans, uint32(req.Header.SessionID))
		} else {
			p.plans[uint32(req.Header.SessionID)] = steps[1:]
		}
	} else {
		st = planStep{Reply: &rawBody{B: []byte{1, 0, 0, 0, 0, 0}}}
	}
	p.mu.Unlock()
	if st.Next {
		resp.Next(p)
	}
	if st.UseWrite && st.Reply != nil {
		// the "total control" path: the handler builds the packet itself, starting from a copy
		// of the request header (whose length field still says how long the REQUEST body was)
		h := req.Header
		h.SeqNo++
		body, _ := st.Reply.MarshalBinary()
		resp.Write(&tq.Packet{Header: &h, Body: body})
		return
	}
	if st.First != nil {
		if _, err := resp.Reply(st.First); err == nil {
			return // it could be sent after all: that was the reply
		}
	}
	if st.Reply != nil {
		resp.Reply(st.Reply)
	}
}

// addrSecrets is a SecretProvider with one secret per remote address.
type addrSecrets struct {
	mu sync.Mutex
	m  map[string][]byte
	h  tq.Handler
}

func (a *addrSecrets) set(addr net.Addr, secret []byte) {
	a.mu.Lock()
	a.m[addr.String()] = secret
	a.mu.Unlock()
}

func (a *addrSecrets) Get(ctx context.Context, remote net.Addr) ([]byte, tq.Handler, error) {
	a.mu.Lock()
	defer a.mu.Unlock()
	s, ok := a.m[remote.String()]
	if !ok {
		return nil, nil, fmt.Errorf("no secret for %v", remote)
	}
	return s, a.h, nil
}

// libServer is a library-level server with a planner handler and per-address secrets.
type libServer struct {
	*kit.Srv
	Plan    *planner
	Secrets *addrSecrets
}

func startLibServer() *libServer {
	n := simnet.New()
	tp := tap.New(n)
	lg := tap.NewLogger(false)
	pl := newPlanner()
	as := &addrSecrets{m: map[string][]byte{}, h: tp.Wrap("initial", pl)}
	return &libServer{Srv: kit.Start(n, tp, lg, as), Plan: pl, Secrets: as}
}

// dial opens a connection bound to the given secret.
func (s *libServer) dial(i int, secret []byte) *simnet.Conn {
	addr := simnet.RemoteFor(i)
	s.Secrets.set(addr, secret)
	return s.L.Dial(addr)
}

// step feeds one request and waits until the server is parked in its next
// Read (or has closed): the window "between two consecutive blocking reads".
// It returns the packets written in that window and the handler invocations.
func (s *libServer) step(c *simnet.Conn, wireBytes []byte) (written [][]byte, stray int, invs []*tap.Inv, st simnet.State, err error) {
	before := s.Tap.Count()
	c.Feed(wireBytes)
	st, err = c.WaitQuiescent()
	written, stray = c.TakePackets()
	for _, iv := range s.Tap.Since(before) {
		if iv.Conn == c.ID {
			invs = append(invs, iv)
		}
	}
	return
}
