package checks

import (
	"bytes"
	"fmt"
	"runtime"
	"sync"
	"time"

	tq "github.com/facebookincubator/tacquito"
	"verif/h/gen"
	"verif/h/kit"
	"verif/h/mon"
	"verif/h/rfc8907"
	"verif/h/simnet"
	"verif/h/tap"
)

// C05 — packet framing is independent of how the TCP stream is segmented.

func init() {
	mon.Register(&mon.Check{
		ID:        "C05",
		Boost:     12,
		Batches:   func(tier string) int { return 16 },
		Run:       runC05,
		Technique: "scripted-delivery runtime monitor: the real server loop and Client.Send read from an in-memory connection whose chunking is dictated by generated segmentation schedules; a wrapping Handler records what is delivered and the event log shows every Read/Close",
		Rule: "a case is one connection: a stream of 1..12 packets (body lengths 0..65536, mixed types, fresh and continued sessions, both flag settings) cut by one of 17 segmentation schedules (1 byte/read .. whole stream, cuts on header/body boundaries, 107/108-byte chunks, coalesced packets), or a truncated/stalled stream at every kind of offset, or an oversize header; client side: Client.Send against scripted replies under the same schedules. " +
			"A class is (side, schedule or scenario, body-size bucket); distinct_nontrivial counts classes; distinct chunkings are counted separately",
		Assumptions: []string{"simnet delivers at most one fed chunk per Read, like a TCP socket delivering one segment; the server goroutine and the test are synchronised only through the connection (WaitClosed/WaitQuiescent)"},
		MinClasses:  func(tier string) int { return 60 },
	})
}

// c05Handler also keeps the body slices it was handed (by reference, not copied):
// a packet already delivered must stay intact while later packets are read.
type c05Handler struct {
	mu   sync.Mutex
	held [][]byte
}

func (h *c05Handler) take() [][]byte {
	h.mu.Lock()
	defer h.mu.Unlock()
	x := h.held
	h.held = nil
	return x
}

func (h *c05Handler) Handle(resp tq.Response, req tq.Request) {
	h.mu.Lock()
	h.held = append(h.held, req.Body)
	h.mu.Unlock()
	if n := len(req.Body); n > 0 && req.Body[n-1] == 'C' {
		resp.Next(h)
	}
	resp.Reply(&rawBody{B: []byte{1, 0, 0, 0, 0, 0}})
}

// c05Body builds a body of exactly n bytes that is self-consistent under one
// layout of the packet type (so that the server's key-mismatch detector, which
// also runs on correctly keyed traffic, has no reason to fire): a CONTINUE /
// authorization REPLY / accounting REPLY whose first text field takes all the
// room. Bodies shorter than every fixed part are random. The last byte is the
// continuation marker read by the handler.
func c05Body(r *gen.R, typ, n int, cont bool) []byte {
	b := r.Bytes(n)
	switch {
	case typ == 1 && n >= 5:
		b[0], b[1], b[2], b[3] = byte((n-5)>>8), byte(n-5), 0, 0
	case typ == 2 && n >= 6:
		b[0], b[1], b[2], b[3], b[4], b[5] = 1, 0, byte((n-6)>>8), byte(n-6), 0, 0
	case typ == 3 && n >= 5:
		b[0], b[1], b[2], b[3] = byte((n-5)>>8), byte(n-5), 0, 0
	}
	if n > 0 {
		if cont {
			b[n-1] = 'C'
		} else if b[n-1] == 'C' {
			b[n-1] = 'D'
		}
	}
	return b
}

var c05BodySizes = []int{0, 1, 5, 11, 12, 13, 94, 95, 96, 106, 107, 108, 200, 1000, 4096, 65535, 65536}

// genStream builds a packet sequence with fresh and continued sessions.
func c05Stream(r *gen.R, big bool) []pktSpec {
	n := 1 + r.Intn(12)
	type sess struct {
		id   uint32
		next int
		left int
	}
	var open []*sess
	var out []pktSpec
	sid := r.U32() | 1
	for len(out) < n {
		var s *sess
		if len(open) > 0 && r.Chance(1, 2) {
			s = open[r.Intn(len(open))]
		} else {
			sid += 1 + uint32(r.Intn(1000))
			s = &sess{id: sid, next: 1 + 2*r.Intn(100), left: r.Intn(4)}
			if s.left > 0 {
				open = append(open, s)
			}
		}
		size := c05BodySizes[r.Intn(len(c05BodySizes)-4)]
		if r.Chance(1, 4) {
			size = r.Intn(300)
		}
		if big && r.Chance(1, 3) {
			size = c05BodySizes[len(c05BodySizes)-4+r.Intn(4)]
		}
		cont := s.left > 0
		if cont && size < 7 {
			size = 7
		}
		fl := 0
		if r.Chance(1, 4) {
			fl = 1
		}
		if r.Chance(1, 4) {
			fl |= 4
		}
		typ := 1 + r.Intn(3)
		out = append(out, pktSpec{H: rfc8907.Header{Major: 0xc, Minor: r.Intn(2), Type: typ, Seq: s.next, Flags: fl, Session: s.id}, Clear: c05Body(r, typ, size, cont)})
		s.next += 2
		s.left--
		if s.left <= 0 {
			for i, o := range open {
				if o == s {
					open = append(open[:i], open[i+1:]...)
					break
				}
			}
		}
	}
	return out
}

func maxBody(pk []pktSpec) int {
	m := 0
	for _, p := range pk {
		if len(p.Clear) > m {
			m = len(p.Clear)
		}
	}
	return m
}

func runC05(b *mon.B) {
	r := gen.New(uint64(b.Seed), 0xC05, uint64(b.Index))
	secret := []byte("c05-secret-" + r.Alnum(8))
	handler := &c05Handler{}
	srv := kit.StartLib(secret, handler)
	srv.Net.SetKeepLog(false)
	defer srv.Stop()
	chunkings := map[string]bool{}
	caseNo := 0

	// ---- server side: full streams under every schedule
	nStreams := b.N(90, 2500)
	for k := 0; k < nStreams; k++ {
		caseNo++
		sc := schedules[(k+b.Index)%len(schedules)]
		big := k%7 == 0
		if sc.Name == "1-byte" || sc.Name == "2-byte" {
			big = k%70 == 0
		}
		pk := c05Stream(r, big)
		if !b.Want(caseNo) {
			continue
		}
		var stream []byte
		var bounds []int
		for _, p := range pk {
			bounds = append(bounds, len(stream))
			stream = append(stream, p.wire(secret)...)
		}
		chunks := sc.Cut(r, stream, bounds)
		chunkings[chunkHash(sc.Name, chunks)] = true
		b.Eval(1)
		b.Class("server/%s/maxbody%s", sc.Name, lenBucket(maxBody(pk)))
		c := srv.L.Dial(simnet.RemoteFor(caseNo))
		before := srv.Tap.Count()
		c.Feed(chunks...)
		if k%4 == 1 {
			// the read that delivers the last bytes also reports the end of the stream
			c.EOFWithLastBytes()
			b.Class("server/eof-with-last-bytes/%s", sc.Name)
		} else {
			c.EOF()
		}
		if err := c.WaitClosed(); err != nil {
			b.Inconclusive("case %d: %v", caseNo, err)
			continue
		}
		invs := srv.Tap.Since(before)
		held := handler.take()
		if len(held) == len(pk) {
			for i := range pk {
				if !bytes.Equal(held[i], pk[i].Clear) {
					b.Violate(caseNo, "C05/server/delivered-packet-changed-later", fmt.Sprintf("the body handed to the handler for packet %d (%d bytes) no longer equals what was sent once the following packets had been read (schedule %q)", i, len(pk[i].Clear), sc.Name),
						map[string]interface{}{"schedule": sc.Name, "packet_index": i, "body_len": len(pk[i].Clear)})
					break
				}
			}
		}
		st := c.Stats()
		for i, n := range st.ReadHist {
			b.Count("server_read_sizes["+simnet.SizeBucketNames[i]+"]", n)
		}
		b.Count("packets_sent", len(pk))
		b.Count("packets_delivered_to_handler", len(invs))
		detail := func() map[string]interface{} {
			d := map[string]interface{}{"schedule": sc.Name, "packets": len(pk), "chunks": len(chunks), "stream_len": len(stream)}
			var sizes []int
			for _, p := range pk {
				sizes = append(sizes, len(p.Clear))
			}
			d["body_sizes"] = sizes
			return d
		}
		if k%211 == 0 {
			b.Sample("server-stream/"+sc.Name, detail())
		}
		if len(invs) != len(pk) {
			b.Violate(caseNo, "C05/server/packet-count/"+sc.Name, fmt.Sprintf("%d packets sent under schedule %q, %d delivered to the handler", len(pk), sc.Name, len(invs)), detail())
			continue
		}
		bad := false
		for i, p := range pk {
			iv := invs[i]
			if iv.Session != p.H.Session || iv.Seq != p.H.Seq || iv.Type != p.H.Type || int(iv.Header.Version.MinorVersion) != p.H.Minor || !bytes.Equal(iv.Body, p.Clear) ||
				int(iv.Header.Flags)&^4 != p.H.Flags&^4 || int(iv.Header.Length) != len(p.Clear) {
				d := detail()
				d["packet_index"] = i
				d["want_header"] = p.H
				d["got_header"] = fmt.Sprintf("%+v", iv.Header)
				d["body_equal"] = bytes.Equal(iv.Body, p.Clear)
				b.Violate(caseNo, "C05/server/packet-differs/"+sc.Name, fmt.Sprintf("packet %d delivered to the handler differs from the packet sent (schedule %q)", i, sc.Name), d)
				bad = true
				break
			}
		}
		if bad {
			continue
		}
		// replies: one per packet except for sequence number 255
		want := 0
		for _, p := range pk {
			if p.H.Seq != 255 {
				want++
			}
		}
		got, partial := c.TakePackets()
		if len(got) != want || partial != 0 {
			b.Violate(caseNo, "C05/server/reply-count", fmt.Sprintf("%d replies expected, %d complete packets (+%d stray bytes) written", want, len(got), partial), detail())
		}
	}

	// ---- the peer pauses inside a packet (shorter than the read deadline) and resumes
	for k := 0; k < b.N(30, 600); k++ {
		caseNo++
		pk := c05Stream(r, false)
		if len(pk) > 3 {
			pk = pk[:3]
		}
		pauseIn := r.Intn(len(pk))
		if len(pk[pauseIn].Clear) < 8 {
			pk[pauseIn].Clear = c05Body(r, pk[pauseIn].H.Type, 8+r.Intn(60), false)
		}
		pause := []time.Duration{500 * time.Millisecond, 1500 * time.Millisecond, 5 * time.Second, 14 * time.Second}[k%4]
		if !b.Want(caseNo) {
			continue
		}
		b.Eval(1)
		b.Class("server/pause-inside-packet/%v", pause)
		c := srv.L.Dial(simnet.RemoteFor(caseNo))
		before := srv.Tap.Count()
		for i, p := range pk {
			w := p.wire(secret)
			if i == pauseIn {
				cut := 1 + r.Intn(len(w)-1)
				c.Feed(w[:cut])
				c.FeedAfter(pause, w[cut:])
			} else {
				c.Feed(w)
			}
		}
		c.EOF()
		if err := c.WaitClosed(); err != nil {
			b.Inconclusive("case %d: %v", caseNo, err)
			continue
		}
		invs := srv.Tap.Since(before)
		handler.take()
		okAll := len(invs) == len(pk)
		for i := 0; okAll && i < len(pk); i++ {
			okAll = invs[i].Session == pk[i].H.Session && invs[i].Seq == pk[i].H.Seq && bytes.Equal(invs[i].Body, pk[i].Clear)
		}
		if !okAll {
			b.Violate(caseNo, "C05/server/pause-inside-packet", fmt.Sprintf("the peer paused %v inside packet %d of %d (well below the read deadline) and resumed: %d packets reached the handler / contents differ", pause, pauseIn+1, len(pk), len(invs)),
				map[string]interface{}{"pause": pause.String(), "packets": len(pk), "delivered": len(invs)})
		}
	}

	// ---- truncated and stalled streams
	srv.Net.SetKeepLog(true)
	// the peer pauses inside a packet for LONGER than the read deadline, then sends the rest: the
	// stream stalled in the middle of a packet, that is an error - the connection is closed at the
	// deadline, the rest is never read, nothing but the packets completed before the pause is
	// delivered
	for k := 0; k < b.N(20, 400); k++ {
		caseNo++
		pk := c05Stream(r, false)
		if len(pk) > 3 {
			pk = pk[:3]
		}
		pauseIn := r.Intn(len(pk))
		if len(pk[pauseIn].Clear) < 40 {
			pk[pauseIn].Clear = c05Body(r, pk[pauseIn].H.Type, 40+r.Intn(200), false)
		}
		pause := []time.Duration{16 * time.Second, 20 * time.Second, 45 * time.Second}[k%3]
		if !b.Want(caseNo) {
			continue
		}
		b.Eval(1)
		b.Class("server/pause-beyond-deadline-inside-packet/%v", pause)
		c := srv.L.Dial(simnet.RemoteFor(caseNo))
		before := srv.Tap.Count()
		t0 := srv.Net.Now()
		for i, p := range pk {
			w := p.wire(secret)
			if i == pauseIn {
				cut := 1 + r.Intn(len(w)-1)
				c.Feed(w[:cut])
				c.FeedAfter(pause, w[cut:])
			} else {
				c.Feed(w)
			}
		}
		c.EOF()
		if err := c.WaitClosed(); err != nil {
			b.Inconclusive("case %d: %v", caseNo, err)
			continue
		}
		invs := srv.Tap.Since(before)
		handler.take()
		okAll := len(invs) == pauseIn
		for i := 0; okAll && i < pauseIn; i++ {
			okAll = invs[i].Session == pk[i].H.Session && invs[i].Seq == pk[i].H.Seq && bytes.Equal(invs[i].Body, pk[i].Clear)
		}
		readsAfterTimeout, timedOut := 0, false
		for _, e := range srv.Net.EventsSince(t0) {
			if e.Conn != c.ID {
				continue
			}
			switch e.Kind {
			case simnet.KReadTimeout:
				timedOut = true
			case simnet.KReadEnter:
				if timedOut {
					readsAfterTimeout++
				}
			}
		}
		w := map[string]interface{}{"pause": pause.String(), "packets": len(pk), "paused_in_packet": pauseIn + 1, "delivered": len(invs), "reads_after_the_timeout": readsAfterTimeout}
		if !okAll {
			b.Violate(caseNo, "C05/server/pause-beyond-deadline/delivered-differs", fmt.Sprintf("the peer paused %v (beyond the read deadline) inside packet %d of %d: %d packets reached the handler, the %d completed before the pause were expected", pause, pauseIn+1, len(pk), len(invs), pauseIn), w)
		} else if readsAfterTimeout > 0 {
			b.Violate(caseNo, "C05/server/pause-beyond-deadline/reading-resumed-inside-the-packet", fmt.Sprintf("the peer paused %v inside packet %d: after the read deadline expired the server issued %d more reads on the connection, i.e. went on parsing from the middle of a packet", pause, pauseIn+1, readsAfterTimeout), w)
		} else {
			b.Count("pauses_beyond_deadline_closed_cleanly", 1)
		}
	}
	for k := 0; k < b.N(60, 1200); k++ {
		caseNo++
		pk := c05Stream(r, false)
		if len(pk) > 4 {
			pk = pk[:4]
		}
		last := pk[len(pk)-1]
		if len(last.Clear) < 3 {
			last.Clear = c05Body(r, last.H.Type, 3+r.Intn(40), false)
			pk[len(pk)-1] = last
		}
		var stream []byte
		for _, p := range pk[:len(pk)-1] {
			stream = append(stream, p.wire(secret)...)
		}
		lw := last.wire(secret)
		var cut int
		var where string
		switch k % 6 {
		case 0:
			cut, where = 1+r.Intn(11), "inside-header"
		case 1:
			cut, where = 12, "between-header-and-body"
		case 2:
			cut, where = 12+1+r.Intn(len(lw)-13), "inside-body"
		case 3:
			cut, where = len(lw)-1, "one-byte-short"
		case 4:
			cut, where = 0, "at-packet-boundary"
		case 5:
			cut, where = 11, "header-minus-one"
		}
		end := []string{"eof", "stall"}[k/6%2]
		if !b.Want(caseNo) {
			continue
		}
		b.Eval(1)
		b.Class("server/truncated/%s/%s", where, end)
		stream = append(stream, lw[:cut]...)
		c := srv.L.Dial(simnet.RemoteFor(caseNo))
		before := srv.Tap.Count()
		sc := schedules[r.Intn(len(schedules))]
		c.Feed(sc.Cut(r, stream, []int{0})...)
		if end == "eof" {
			c.EOF()
		} else {
			c.Stall()
		}
		if err := c.WaitClosed(); err != nil {
			b.Inconclusive("case %d: %v", caseNo, err)
			continue
		}
		invs := srv.Tap.Since(before)
		handler.take()
		if len(invs) != len(pk)-1 {
			b.Violate(caseNo, "C05/server/partial-packet-delivered/"+where,
				fmt.Sprintf("stream ends (%s) %s of packet %d: %d packets reached the handler, %d complete ones were sent", end, where, len(pk), len(invs), len(pk)-1),
				map[string]interface{}{"cut": cut, "last_packet_len": len(lw), "end": end})
		}
		for i, iv := range invs {
			if i < len(pk) && !bytes.Equal(iv.Body, pk[i].Clear) {
				b.Violate(caseNo, "C05/server/shortened-packet/"+where, "a packet delivered before the truncation point differs from what was sent", nil)
			}
		}
	}

	// ---- oversize headers
	for k, announced := range []uint32{65537, 65538, 1 << 20, 1 << 24, 1 << 31, 1<<32 - 1} {
		for _, split := range []string{"whole", "1-byte", "with-trailing-bytes"} {
			caseNo++
			if !b.Want(caseNo) || (k+b.Index)%2 != 0 && !b.Thorough() {
				continue
			}
			b.Eval(1)
			b.Class("server/oversize/%d/%s", announced, split)
			h := rfc8907.Header{Major: 0xc, Minor: 0, Type: 1 + r.Intn(3), Seq: 1, Session: r.U32(), Length: announced}
			hb := h.Encode()
			trailing := r.Bytes(40)
			// The heap meter is process-wide, so the scenario runs on a fresh, otherwise idle server,
			// and it is repeated up to three times: sporadic allocations by the runtime or by idle
			// goroutines are noise, an allocation made for the announced body is there every time.
			// The verdict uses the smallest growth seen.
			var grown uint64 = 1 << 62
			readsAfter, timeouts, handlerRan := 0, 0, false
			attemptFailed := false
			for attempt := 0; attempt < 3 && grown > 64<<10; attempt++ {
				osrv := kit.StartLib(secret, &c05Handler{})
				c := osrv.L.Dial(simnet.RemoteFor(caseNo))
				c.WaitQuiescent()
				before := osrv.Tap.Count()
				var ms runtime.MemStats
				runtime.ReadMemStats(&ms)
				alloc0 := ms.TotalAlloc
				t0 := osrv.Net.Now()
				switch split {
				case "whole":
					c.Feed(hb)
				case "1-byte":
					c.Feed(cutEvery(1)(r, hb, nil)...)
				case "with-trailing-bytes":
					c.Feed(append(append([]byte{}, hb...), trailing...))
				}
				c.Stall()
				if err := c.WaitClosed(); err != nil {
					b.Inconclusive("case %d: %v", caseNo, err)
					osrv.Stop()
					attemptFailed = true
					break
				}
				runtime.ReadMemStats(&ms)
				if g := ms.TotalAlloc - alloc0; g < grown {
					grown = g
				}
				// after the byte that completes the header no further Read may be issued
				delivered := 0
				readsAfter, timeouts = 0, 0
				for _, e := range osrv.Net.EventsSince(t0) {
					if e.Conn != c.ID {
						continue
					}
					switch e.Kind {
					case simnet.KReadReturn:
						delivered += e.N
					case simnet.KReadEnter:
						if delivered >= 12 {
							readsAfter++
						}
					case simnet.KReadTimeout:
						timeouts++
					}
				}
				handlerRan = osrv.Tap.Count() != before
				osrv.Stop()
			}
			if attemptFailed {
				continue
			}
			b.Max("max:oversize_scenario_heap_growth_bytes", int(grown))
			w := map[string]interface{}{"announced": announced, "split": split, "reads_after_header": readsAfter, "heap_growth": grown}
			if readsAfter > 0 || timeouts > 0 {
				b.Violate(caseNo, "C05/server/oversize-header-waited-for-body", fmt.Sprintf("header announcing %d body bytes: the server issued %d more reads instead of refusing at once", announced, readsAfter), w)
			}
			if grown > 64<<10 {
				b.Violate(caseNo, "C05/server/oversize-header-allocated", fmt.Sprintf("header announcing %d body bytes: %d bytes allocated", announced, grown), w)
			}
			if handlerRan {
				b.Violate(caseNo, "C05/server/oversize-delivered", "a handler ran for an oversize header", w)
			}
		}
	}
	// ---- proxy mode: every packet is preceded by a PROXY line ending in CR LF NUL; the same
	// independence of segmentation holds, in particular for a cut between the LF and the NUL
	for k := 0; k < b.N(30, 800); k++ {
		caseNo++
		sc := schedules[(k+b.Index)%len(schedules)]
		pk := c05Stream(r, false)
		if len(pk) > 4 {
			pk = pk[:4]
		}
		if !b.Want(caseNo) {
			continue
		}
		b.Eval(1)
		var stream []byte
		var bounds, nulAt []int
		for _, p := range pk {
			bounds = append(bounds, len(stream))
			line := proxyLine()
			nulAt = append(nulAt, len(stream)+len(line)-1)
			stream = append(stream, line...)
			bounds = append(bounds, len(stream))
			stream = append(stream, p.wire(secret)...)
		}
		var chunks [][]byte
		name := sc.Name
		if k%3 == 0 {
			// cut exactly between the LF and the NUL of every line
			name = "cut-before-each-NUL"
			prev := 0
			for _, at := range nulAt {
				chunks = append(chunks, stream[prev:at])
				prev = at
			}
			chunks = append(chunks, stream[prev:])
		} else {
			chunks = sc.Cut(r, stream, bounds)
		}
		b.Class("server/proxy-mode/%s", name)
		pw := simnet.New()
		pw.SetKeepLog(false)
		ptp := tap.New(pw)
		ph := &c05Handler{}
		psrv := kit.Start(pw, ptp, tap.NewLogger(false), &tap.Static{Secret: secret, Handler: ptp.Wrap("initial", ph)}, tq.SetUseProxy(true))
		c := psrv.L.Dial(simnet.RemoteFor(caseNo))
		c.Feed(chunks...)
		c.EOF()
		if err := c.WaitClosed(); err != nil {
			b.Inconclusive("proxy case %d: %v", caseNo, err)
			psrv.Stop()
			continue
		}
		held := ph.take()
		ok := len(held) == len(pk)
		for i := 0; ok && i < len(pk); i++ {
			ok = bytes.Equal(held[i], pk[i].Clear)
		}
		if !ok {
			b.Violate(caseNo, "C05/server/proxy-mode/packets-lost-or-changed/"+name, fmt.Sprintf("proxy mode, schedule %q: %d packets sent (each behind a PROXY line), %d delivered intact", name, len(pk), len(held)),
				map[string]interface{}{"schedule": name, "packets": len(pk), "chunks": len(chunks)})
		} else {
			b.Count("proxy_mode_streams_delivered_intact", 1)
		}
		psrv.Stop()
	}
	// ---- connections that are open at the same time each have their own stream, also right after
	// other connections were refused (oversize header) or ended in the middle of a packet: what is
	// written on one is delivered on that one
	for k := 0; k < b.N(6, 120); k++ {
		caseNo++
		if !b.Want(caseNo) {
			continue
		}
		b.Eval(1)
		psrv := kit.StartLib(secret, &c05Handler{})
		psrv.Net.SetKeepLog(false)
		prelude := r.PickS("oversize-header", "truncated-packet", "none")
		b.Class("server/parallel-connections-after-%s", prelude)
		switch prelude {
		case "oversize-header":
			a := psrv.L.Dial(simnet.RemoteFor(900000 + k))
			a.Feed(rfc8907.Header{Major: 0xc, Type: 1, Seq: 1, Session: r.U32(), Length: 70000}.Encode())
			a.Stall()
			a.WaitClosed()
		case "truncated-packet":
			a := psrv.L.Dial(simnet.RemoteFor(900000 + k))
			w := pktSpec{H: rfc8907.Header{Major: 0xc, Type: 1, Seq: 1, Session: r.U32()}, Clear: c05Body(r, 1, 40, false)}.wire(secret)
			a.Feed(w[:20])
			a.EOF()
			a.WaitClosed()
		}
		nc := 2 + r.Intn(3)
		conns := make([]*simnet.Conn, nc)
		for i := range conns {
			conns[i] = psrv.L.Dial(simnet.RemoteFor(910000 + k*8 + i))
			conns[i].WaitQuiescent()
		}
		bad := ""
		for step := 0; step < 3*nc && bad == ""; step++ {
			i := r.Intn(nc)
			typ := 1 + r.Intn(3)
			body := c05Body(r, typ, 10+r.Intn(200), false)
			h := rfc8907.Header{Major: 0xc, Type: typ, Seq: 1, Session: r.U32()}
			before := psrv.Tap.Count()
			conns[i].Feed(pktSpec{H: h, Clear: body}.wire(secret))
			if _, err := conns[i].WaitQuiescent(); err != nil {
				b.Inconclusive("parallel connections: %v", err)
				bad = "-"
				break
			}
			invs := psrv.Tap.Since(before)
			raws, _ := conns[i].TakePackets()
			switch {
			case len(invs) != 1:
				bad = fmt.Sprintf("a packet written on connection %d of %d open ones led to %d deliveries", i, nc, len(invs))
			case invs[0].Conn != conns[i].ID:
				bad = fmt.Sprintf("a packet written on connection %d was delivered on another connection", i)
			case !bytes.Equal(invs[0].Body, body) || uint32(invs[0].Header.SessionID) != h.Session:
				bad = fmt.Sprintf("the packet delivered on connection %d is not the one written on it", i)
			case len(raws) != 1:
				bad = fmt.Sprintf("connection %d got %d reply packets for its request", i, len(raws))
			}
		}
		if bad != "" && bad != "-" {
			b.Violate(caseNo, "C05/server/streams-of-parallel-connections-mixed", bad, map[string]interface{}{"prelude": prelude, "connections": nc})
		} else if bad == "" {
			b.Count("parallel_connection_rounds_intact", 1)
		}
		psrv.Stop()
	}
	// ---- oversize headers, client as the receiver: Client.Send must come back with an error as soon
	// as the 12 header bytes are in, without another read and without allocating the announced size
	// (announcements stop at 64 MiB here: a client that does allocate must not take the machine down)
	for k, announced := range []uint32{65537, 65538, 1 << 20, 1 << 26} {
		for _, split := range []string{"whole", "1-byte", "with-trailing-bytes"} {
			caseNo++
			if !b.Want(caseNo) || (k+b.Index)%2 != 0 && !b.Thorough() {
				continue
			}
			b.Eval(1)
			b.Class("client/oversize/%d/%s", announced, split)
			typ := 1 + r.Intn(3)
			sid := r.U32()
			hb := rfc8907.Header{Major: 0xc, Minor: 0, Type: typ, Seq: 2, Session: sid, Length: announced}.Encode()
			trailing := r.Bytes(40)
			var grown uint64 = 1 << 62
			readsAfter := 0
			var sendErr error
			var got *tq.Packet
			for attempt := 0; attempt < 3 && grown > 64<<10; attempt++ {
				world := simnet.New()
				conn := world.NewConn(simnet.RemoteFor(caseNo))
				cl := tq.NewClientFromConn(conn, secret)
				switch split {
				case "whole":
					conn.Feed(hb)
				case "1-byte":
					conn.Feed(cutEvery(1)(r, hb, nil)...)
				case "with-trailing-bytes":
					conn.Feed(append(append([]byte{}, hb...), trailing...))
				}
				conn.Stall()
				req := tq.NewPacket(tq.SetPacketHeader(tq.NewHeader(tq.SetHeaderVersion(tq.Version{MajorVersion: 0xc}), tq.SetHeaderType(tq.HeaderType(typ)),
					tq.SetHeaderSeqNo(1), tq.SetHeaderSessionID(tq.SessionID(sid)))), tq.SetPacketBody(c05Body(r, typ, 20, false)))
				var ms runtime.MemStats
				runtime.ReadMemStats(&ms)
				alloc0 := ms.TotalAlloc
				t0 := world.Now()
				got, sendErr = cl.Send(req)
				runtime.ReadMemStats(&ms)
				if g := ms.TotalAlloc - alloc0; g < grown {
					grown = g
				}
				delivered := 0
				readsAfter = 0
				for _, e := range world.EventsSince(t0) {
					switch e.Kind {
					case simnet.KReadReturn:
						delivered += e.N
					case simnet.KReadEnter:
						if delivered >= 12 {
							readsAfter++
						}
					}
				}
			}
			b.Max("max:client_oversize_scenario_heap_growth_bytes", int(grown))
			w := map[string]interface{}{"announced": announced, "split": split, "reads_after_header": readsAfter, "heap_growth": grown, "send_error": fmt.Sprint(sendErr)}
			if sendErr == nil && got != nil {
				b.Violate(caseNo, "C05/client/oversize-delivered", fmt.Sprintf("header announcing %d body bytes: Client.Send returned a packet", announced), w)
			}
			if readsAfter > 0 {
				b.Violate(caseNo, "C05/client/oversize-header-waited-for-body", fmt.Sprintf("header announcing %d body bytes: Client.Send issued %d more reads instead of refusing at once", announced, readsAfter), w)
			}
			if grown > 64<<10 {
				b.Violate(caseNo, "C05/client/oversize-header-allocated", fmt.Sprintf("header announcing %d body bytes: %d bytes allocated by Client.Send", announced, grown), w)
			}
		}
	}
	srv.Net.SetKeepLog(false)

	// ---- client side
	replyLayouts := map[int]string{1: rfc8907.AuthenReply, 2: rfc8907.AuthorReply, 3: rfc8907.AcctReply}
	for k := 0; k < b.N(80, 2000); k++ {
		caseNo++
		if !b.Want(caseNo) {
			r.U64()
			continue
		}
		sc := schedules[(k+b.Index)%len(schedules)]
		n := 1 + r.Intn(4)
		typ := 1 + r.Intn(3)
		csecret := []byte(r.Alnum(1 + r.Intn(20)))
		world := simnet.New()
		world.SetKeepLog(false)
		conn := world.NewConn(simnet.RemoteFor(k))
		cl := tq.NewClientFromConn(conn, csecret)
		var replies []pktSpec
		var stream []byte
		var bounds []int
		for i := 0; i < n; i++ {
			v := smallValue(r, replyLayouts[typ])
			if r.Chance(1, 4) {
				tfs := textFields(v.Layout)
				v.Texts[tfs[0].Name] = fillText(r, v.Layout, tfs[0].Name, r.Pick(95, 107, 108, 4000, 65000), 0, false)
			}
			if typ == 2 && v.Layout == rfc8907.AuthorReply {
				for j := range v.Args {
					if len(v.Args[j]) < 2 {
						v.Args[j] = makeArg(r, 4)
					}
				}
			}
			clear, _ := v.Encode()
			fl := 0
			if r.Chance(1, 4) {
				fl = 1
			}
			p := pktSpec{H: rfc8907.Header{Major: 0xc, Minor: r.Intn(2), Type: typ, Seq: 2 * (1 + r.Intn(127)), Flags: fl, Session: r.U32()}, Clear: clear}
			replies = append(replies, p)
			bounds = append(bounds, len(stream))
			stream = append(stream, p.wire(csecret)...)
		}
		truncate := k%9 == 0
		if truncate {
			stream = stream[:len(stream)-1-r.Intn(12)]
		}
		chunks := sc.Cut(r, stream, bounds)
		chunkings[chunkHash("client/"+sc.Name, chunks)] = true
		conn.Feed(chunks...)
		conn.EOF()
		b.Eval(1)
		b.Class("client/%s/trunc=%v/maxbody%s", sc.Name, truncate, lenBucket(maxBody(replies)))
		var heldGot []*tq.Packet
		for i, want := range replies {
			req := tq.NewPacket(tq.SetPacketHeader(tq.NewHeader(tq.SetHeaderVersion(tq.Version{MajorVersion: 0xc, MinorVersion: uint8(want.H.Minor)}), tq.SetHeaderType(tq.HeaderType(typ)),
				tq.SetHeaderSeqNo(want.H.Seq-1), tq.SetHeaderSessionID(tq.SessionID(want.H.Session)))), tq.SetPacketBody([]byte{1, 2, 3}))
			got, err := cl.Send(req)
			lastOne := i == len(replies)-1
			if truncate && lastOne {
				if err == nil {
					b.Violate(caseNo, "C05/client/shortened-packet", fmt.Sprintf("reply stream ends inside the last packet but Client.Send returned a packet (%d body bytes, %d sent)", len(got.Body), len(want.Clear)),
						map[string]interface{}{"schedule": sc.Name})
				}
				break
			}
			if err != nil {
				b.Violate(caseNo, "C05/client/send-error/"+sc.Name, fmt.Sprintf("Client.Send failed on reply %d of %d under schedule %q: %v", i+1, len(replies), sc.Name, err),
					map[string]interface{}{"schedule": sc.Name, "reply_len": len(want.Clear)})
				break
			}
			wantFlags := want.H.Flags
			if want.H.Seq == 2 {
				wantFlags |= 4
			}
			if got.Header == nil || uint32(got.Header.SessionID) != want.H.Session || int(got.Header.SeqNo) != want.H.Seq || int(got.Header.Type) != typ ||
				int(got.Header.Flags) != wantFlags || !bytes.Equal(got.Body, want.Clear) {
				b.Violate(caseNo, "C05/client/packet-differs/"+sc.Name, fmt.Sprintf("reply %d returned by Client.Send differs from the bytes the peer sent (schedule %q)", i+1, sc.Name),
					map[string]interface{}{"schedule": sc.Name, "want_len": len(want.Clear), "got_len": len(got.Body)})
				break
			}
			b.Count("client_replies_reconstructed", 1)
			heldGot = append(heldGot, got)
		}
		for i, g := range heldGot {
			if !bytes.Equal(g.Body, replies[i].Clear) {
				b.Violate(caseNo, "C05/client/returned-packet-changed-later", fmt.Sprintf("the packet Client.Send returned for reply %d changed after later replies were read (schedule %q)", i+1, sc.Name), map[string]interface{}{"schedule": sc.Name})
				break
			}
		}
	}
	b.Count("distinct_chunkings", len(chunkings))
	_ = tap.New
}
