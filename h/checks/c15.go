package checks

import (
	"context"
	"fmt"
	"net"
	"sort"
	"strings"
	"sync"
	"sync/atomic"
	"time"

	"github.com/anishathalye/porcupine"
	tq "github.com/facebookincubator/tacquito"
	"github.com/facebookincubator/tacquito/cmds/server/config"
	"verif/h/gen"
	"verif/h/mon"
	"verif/h/refsrv"
	"verif/h/rfc8907"
	"verif/h/tap"
)

// C15 — no data races; configuration reload is atomic with respect to lookups;
// a published configuration is never written again.

func init() {
	mon.Register(&mon.Check{
		ID:        "C15",
		Race:      true,
		Batches:   func(tier string) int { return map[string]int{"quick": 6, "thorough": 16}[tier] },
		Run:       runC15,
		Technique: "Go race detector (happens-before analysis, reports de-duplicated by the pair of first tacquito frames) over the whole reference server under generated concurrent load with reloads and shutdown; porcupine linearizability check of recorded lookup/reload histories against a one-register model (mixtures are illegal in every state); deep hashes of every published configuration re-checked after later loads",
		Rule: "workload per round: 8-48 client goroutines running ASCII/PAP logins, command and session authorization and accounting with two sessions multiplexed per connection, users shared between goroutines; a reloader publishing equal and different configurations through the real yaml/json loader objects every few milliseconds; lookups of probe addresses; shutdown with connections idle, mid-exchange and inside handlers; a slice over real loopback TCP with tq.Client. " +
			"A class is a pair of operation kinds observed overlapping in time, or a (probe kind, outcome kind) of the atomicity history; distinct_nontrivial counts classes",
		Assumptions: []string{"the race detector reports only races between accesses the workload executed; SPAN handler, DNS provider, syslog accounter and the fsnotify watcher are outside the reference wiring driven here",
			"reload completion is taken at the loader's own 'updated all prefix filters' log line, so a lookup overlapping a reload may legally return either side",
			"a race report whose both stacks lack any tacquito frame is a harness race and makes the run inconclusive"},
		MinClasses: func(tier string) int { return 12 },
		Parallel:   6,
		WorkerTimeout: func(tier string) time.Duration {
			return map[string]time.Duration{"quick": 6 * time.Minute, "thorough": 40 * time.Minute}[tier]
		},
	})
}

var c15Kinds = []string{"authen-ascii", "authen-pap", "author-command", "author-session", "accounting", "lookup", "reload", "dial", "shutdown"}

type activity struct {
	active [16]int32
	mu     sync.Mutex
	pairs  map[string]bool
	ops    map[string]int
}

func (a *activity) begin(kind int) {
	atomic.AddInt32(&a.active[kind], 1)
	var seen []int
	for k := range c15Kinds {
		n := atomic.LoadInt32(&a.active[k])
		if n > 0 && (k != kind || n > 1) {
			seen = append(seen, k)
		}
	}
	a.mu.Lock()
	a.ops[c15Kinds[kind]]++
	for _, k := range seen {
		x, y := c15Kinds[kind], c15Kinds[k]
		if x > y {
			x, y = y, x
		}
		a.pairs[x+"||"+y] = true
	}
	a.mu.Unlock()
}

func (a *activity) end(kind int) { atomic.AddInt32(&a.active[kind], -1) }

// c15Gen builds generation g of the reload test configuration. Deny list,
// allow list and the scope key all encode g:
//
//	deny  = 10.(g%200).0.0/16
//	allow = 10.0.0.0/8 and 172.(g%200).0.0/16
//	key   = "gen-<g>"
//
// so for the probe 10.x.0.1 the pure outcome is: refused if x == g%200, else
// key gen-g; for the probe 172.x.0.1: key gen-g if x == g%200, else refused.
// A lookup that mixes filters of one generation with providers of another
// produces an outcome no single generation allows.
//
// A "hollow" generation is a configuration that loads but builds no provider at all (its only
// scope names an unregistered provider type): every lookup is refused while it is in force,
// whatever its filters say.
func c15Gen(g int, users []config.User, spaced bool, hollow ...bool) config.ServerConfig {
	c := c15GenFull(g, users, spaced)
	if len(hollow) > 0 && hollow[0] {
		c.Secrets[0].Type = 77
	}
	return c
}

func c15GenFull(g int, users []config.User, spaced bool) config.ServerConfig {
	c := config.ServerConfig{
		Secrets:     []config.SecretConfig{refsrv.Scope("scope0", fmt.Sprintf("gen-%d", g), "10.0.0.0/8", "172.0.0.0/8")},
		PrefixDeny:  []string{fmt.Sprintf("10.%d.0.0/16", g%200)},
		PrefixAllow: []string{"10.0.0.0/8", fmt.Sprintf("172.%d.0.0/16", g%200)},
	}
	for _, u := range users {
		u.Scopes = []string{"scope0"}
		// fresh slices per generation, as a decoder would produce
		u.Commands = append([]config.Command{}, u.Commands...)
		for i := range u.Commands {
			u.Commands[i].Match = append([]string{}, u.Commands[i].Match...)
			if spaced && len(u.Commands[i].Match) > 0 {
				u.Commands[i].Match[0] = " " + strings.TrimSpace(u.Commands[i].Match[0]) + " "
			}
		}
		c.Users = append(c.Users, u)
	}
	return c
}

type lookupIn struct {
	Family byte // 'd' deny probe 10.x.0.1, 'a' allow probe 172.x.0.1
	X      int
	Write  bool
	Gen    int
	Hollow bool // (writes) the generation builds no provider
}

type lookupOut struct {
	Refused bool
	Gen     int // generation decoded from the key (-2: unknown key)
}

var c15Model = porcupine.Model{
	Init: func() interface{} { return 0 },
	Step: func(state, input, output interface{}) (bool, interface{}) {
		g := state.(int)
		in := input.(lookupIn)
		if in.Write {
			if in.Hollow {
				return true, -in.Gen
			}
			return true, in.Gen
		}
		out := output.(lookupOut)
		if g < 0 {
			return out.Refused, g // hollow generation: nothing is served
		}
		switch in.Family {
		case 'd':
			if in.X == g%200 {
				return out.Refused, g
			}
			return !out.Refused && out.Gen == g, g
		default:
			if in.X == g%200 {
				return !out.Refused && out.Gen == g, g
			}
			return out.Refused, g
		}
	},
	DescribeOperation: func(input, output interface{}) string {
		in := input.(lookupIn)
		if in.Write {
			if in.Hollow {
				return fmt.Sprintf("reload(gen %d, builds no provider)", in.Gen)
			}
			return fmt.Sprintf("reload(gen %d)", in.Gen)
		}
		out := output.(lookupOut)
		fam := map[byte]string{'d': "10", 'a': "172"}[in.Family]
		if out.Refused {
			return fmt.Sprintf("lookup(%s.%d.0.1) -> refused", fam, in.X)
		}
		return fmt.Sprintf("lookup(%s.%d.0.1) -> key gen-%d", fam, in.X, out.Gen)
	},
}

func cfgHash(c config.ServerConfig) string { return canon(c) }

func runC15(b *mon.B) {
	r := gen.New(uint64(b.Seed), 0xC15, uint64(b.Index))
	act := &activity{pairs: map[string]bool{}, ops: map[string]int{}}
	rounds := b.N1(3, 14)
	caseNo := 0
	for round := 0; round < rounds; round++ {
		caseNo++
		if !b.Want(caseNo) {
			continue
		}
		b.Eval(1)
		c15Round(b, r, act, caseNo, round)
	}
	// a slice over real loopback TCP
	caseNo++
	if b.Want(caseNo) {
		b.Eval(1)
		c15RealTCP(b, r, act)
	}
	for p := range act.pairs {
		b.Class("overlap:" + p)
	}
	for k, n := range act.ops {
		b.Count("ops:"+k, n)
	}
}

func c15Round(b *mon.B, r *gen.R, act *activity, caseNo, round int) {
	sc := richConfig(r, 1)
	users := sc.Cfg.Users
	// every reload re-marshals, re-decodes and re-hashes the whole user list under the race
	// detector: leave the 300-value service out of it
	for i := range users {
		var keep []config.Service
		for _, sv := range users[i].Services {
			if sv.Name != "widesvc" {
				keep = append(keep, sv)
			}
		}
		users[i].Services = keep
	}
	format := []string{"yaml", "json"}[(round+b.Index)%2]
	// ---- published configurations are snapshotted as they pass to the loader
	type published struct {
		val  config.ServerConfig
		hash string
		gen  int
	}
	var pubMu sync.Mutex
	var pubs []published
	rehash := func(when string) {
		pubMu.Lock()
		defer pubMu.Unlock()
		for _, p := range pubs {
			if h := cfgHash(p.val); h != p.hash {
				b.Violate(caseNo, "C15/published-configuration-written-again",
					fmt.Sprintf("a configuration that had been published (generation %d) was modified afterwards (%s)", p.gen, when),
					map[string]interface{}{"was": clip(p.hash), "is": clip(h), "format": format})
				return
			}
		}
	}
	gen0 := 1 + r.Intn(50)
	curGen := int32(gen0)
	interpose := func(in chan config.ServerConfig) chan config.ServerConfig {
		out := make(chan config.ServerConfig, 1)
		go func() {
			for c := range in {
				pubMu.Lock()
				pubs = append(pubs, published{val: c, hash: cfgHash(c), gen: int(atomic.LoadInt32(&curGen))})
				pubMu.Unlock()
				out <- c
			}
		}()
		return out
	}
	var widen int32
	var widenN uint32
	onLog := func(level, text string) {
		// the loader logs this between rebuilding providers and rebuilding filters
		if atomic.LoadInt32(&widen) == 1 && strings.HasPrefix(text, "updated all providers from config source") {
			k := atomic.AddUint32(&widenN, 1)
			time.Sleep(time.Duration(200+(k*2654435761>>20)%1500) * time.Microsecond)
		}
	}
	ref, err := refsrv.Start(c15Gen(gen0, users, true), refsrv.Options{ViaYAML: format == "yaml", ViaJSON: format == "json", Keys: sc.Keys, Interpose: interpose, OnLog: onLog, ExtraWriters: 2})
	if err != nil {
		b.Inconclusive("configuration did not load: %v", err)
		return
	}
	ref.Net.SetKeepLog(false)
	ref.Tap.SetKeepBodies(false)
	atomic.StoreInt32(&widen, 1)

	var clock int64
	tick := func() int64 { return atomic.AddInt64(&clock, 1) }
	var opsMu sync.Mutex
	// the initial load (done by refsrv.Start before any lookup) is the first write
	ops := []porcupine.Operation{{ClientId: 0, Input: lookupIn{Write: true, Gen: gen0}, Call: 0, Output: lookupOut{}, Return: 0}}
	stop := make(chan struct{})
	var wg sync.WaitGroup

	// ---- reloader
	nReloads := b.N1(25, 60)
	wg.Add(1)
	reloadRand := r.Fork(1)
	go func() {
		defer wg.Done()
		rr := reloadRand
		g := gen0
		for i := 0; i < nReloads; i++ {
			select {
			case <-stop:
				return
			default:
			}
			if rr.Chance(3, 4) {
				g++
			}
			hollow := i > 2 && i < nReloads-1 && rr.Chance(1, 7)
			atomic.StoreInt32(&curGen, int32(g))
			act.begin(6)
			call := tick()
			err := ref.Publish(c15Gen(g, users, true, hollow))
			ret := tick()
			act.end(6)
			if err != nil {
				b.Inconclusive("reload failed: %v", err)
				return
			}
			opsMu.Lock()
			ops = append(ops, porcupine.Operation{ClientId: 0, Input: lookupIn{Write: true, Gen: g, Hollow: hollow}, Call: call, Output: lookupOut{}, Return: ret})
			opsMu.Unlock()
			if hollow {
				b.Count("reloads_that_build_no_provider", 1)
			}
			rehash(fmt.Sprintf("after load %d", i))
			time.Sleep(time.Duration(rr.Intn(3000)) * time.Microsecond)
		}
	}()
	// ---- lookup probes (the atomicity history)
	nProbers := 4
	for p := 0; p < nProbers; p++ {
		wg.Add(1)
		probeRand := r.Fork(uint64(100 + p))
		go func(p int) {
			defer wg.Done()
			rr := probeRand
			for {
				select {
				case <-stop:
					return
				default:
				}
				g := int(atomic.LoadInt32(&curGen))
				in := lookupIn{Family: byte(rr.Pick('d', 'a')), X: (g + rr.Pick(-1, 0, 0, 1, 1)) % 200}
				if in.X < 0 {
					in.X = 0
				}
				ip := net.IPv4(10, byte(in.X), 0, 1)
				if in.Family == 'a' {
					ip = net.IPv4(172, byte(in.X), 0, 1)
				}
				act.begin(5)
				call := tick()
				secret, h, err := ref.Loader.Get(context.Background(), &net.TCPAddr{IP: ip, Port: 7})
				ret := tick()
				act.end(5)
				out := lookupOut{Refused: err != nil || secret == nil || h == nil}
				if !out.Refused {
					out.Gen = -2
					fmt.Sscanf(string(secret), "gen-%d", &out.Gen)
				}
				opsMu.Lock()
				ops = append(ops, porcupine.Operation{ClientId: 1 + p, Input: in, Call: call, Output: out, Return: ret})
				opsMu.Unlock()
				if rr.Chance(1, 3) {
					time.Sleep(time.Duration(rr.Intn(200)) * time.Microsecond)
				}
			}
		}(p)
	}
	// ---- AAA clients
	nClients := 8 + r.Intn(b.N1(17, 41))
	var exchanges int64
	var wrong int64
	names := []string{"alice", "bob", "carol", "heidi", "erin", "ivan", "dave"}
	for cidx := 0; cidx < nClients; cidx++ {
		wg.Add(1)
		clientRand := r.Fork(uint64(1000 + cidx))
		go func(cidx int) {
			defer wg.Done()
			rr := clientRand
			for iter := 0; ; iter++ {
				select {
				case <-stop:
					return
				default:
				}
				// connect from an address that no generation refuses
				act.begin(7)
				remote := &net.TCPAddr{IP: net.IPv4(10, 250, byte(cidx), byte(1+iter%250)), Port: 3000 + cidx}
				c := ref.L.Dial(remote)
				act.end(7)
				st, err := c.WaitQuiescent()
				if err != nil || st.Closed {
					ref.Net.Forget(c)
					continue
				}
				// which generation's key serves this connection? try the current and neighbours
				user := names[rr.Intn(len(names))]
				ui := sc.Users[user]
				var rc *refConn
				g := int(atomic.LoadInt32(&curGen))
				for _, cand := range []int{g, g - 1, g + 1, g - 2} {
					rc = &refConn{ref: ref, c: c, key: []byte(fmt.Sprintf("gen-%d", cand)), last: map[uint32]int{}}
					res := rc.send(rfc8907.Header{Major: 0xc, Type: 2, Seq: 1, Session: rr.U32()}, bAuthorRequest(6, 1, 1, 1, user, "p", "r", "service=shell", "cmd=show", "cmd-arg=version"), true)
					if len(res.Replies) == 1 && res.Replies[0].Value != nil {
						break
					}
					rc = nil
					if res.State.Closed || res.Err != nil {
						break
					}
				}
				if rc == nil {
					if !c.Closed() {
						c.EOF()
					}
					ref.Net.Forget(c)
					continue
				}
				// two sessions multiplexed on the connection
				for k := 0; k < 6; k++ {
					kind := rr.Intn(5)
					act.begin(kind)
					sid := rr.U32()
					var rec recipe
					switch kind {
					case 0:
						pw := "bad"
						if ui != nil && ui.Password != "" && rr.Bool() {
							pw = ui.Password
						}
						rec = asciiLogin(user, rr.Bool(), pw, 0)
					case 1:
						pw := "bad"
						if ui != nil && ui.Password != "" {
							pw = ui.Password
						}
						rec = papLogin(user, pw, 1)
					case 2:
						rec = authorCmd(user, rr.PickS("show", "configure", "reload"), rr.PickS("version", "terminal", "ip route x"))
						if rr.Bool() {
							// a request of a few KiB: large bodies take other paths through buffers
							var long []string
							for i, n := 0, 6+rr.Intn(30); i < n; i++ {
								long = append(long, rr.Alnum(100+rr.Intn(140)))
							}
							rec = authorCmd(user, "show", long...)
						}
					case 3:
						rec = authorSession(user, "service="+rr.PickS("shell", "ppp"), "protocol=ip")
					case 4:
						rec = acct(user, rr.Pick(2, 4, 8), "task_id="+rr.Alnum(5))
						if rr.Bool() {
							args := []string{"task_id=" + rr.Alnum(5)}
							for i, n := 0, 6+rr.Intn(60); i < n; i++ {
								args = append(args, "x="+rr.Alnum(100+rr.Intn(150)))
							}
							rec = acct(user, rr.Pick(2, 4, 8), args...)
						}
					}
					other := authorCmd(names[rr.Intn(len(names))], "show", "version")
					osid := rr.U32()
					for i, p := range rec.Pkts {
						res := rc.send(rfc8907.Header{Major: 0xc, Minor: p.Minor, Type: p.Type, Seq: 1 + 2*i, Session: sid}, p.Body, true)
						atomic.AddInt64(&exchanges, 1)
						if res.Err != nil || res.State.Closed || len(res.Replies) != 1 {
							atomic.AddInt64(&wrong, 1)
							break
						}
						if i == 0 {
							rc.send(rfc8907.Header{Major: 0xc, Type: 2, Seq: 1, Session: osid}, other.Pkts[0].Body, true)
						}
					}
					act.end(kind)
					if rc.c.Closed() {
						break
					}
				}
				// most connections are closed by the client; some stay open (idle or with a
				// continuation pending) until shutdown
				if rr.Chance(7, 8) && !c.Closed() {
					c.EOF()
				}
				if c.Closed() {
					ref.Net.Forget(c)
				}
			}
		}(cidx)
	}
	// ---- client-side helpers of the library used from several goroutines at once (every client
	// goroutine of a real program builds its own headers and packets)
	for g := 0; g < 4; g++ {
		wg.Add(1)
		go func() {
			defer wg.Done()
			for i := 0; i < 3000; i++ {
				select {
				case <-stop:
					return
				default:
				}
				h := tq.NewHeader(tq.SetHeaderVersion(tq.Version{MajorVersion: tq.MajorVersion, MinorVersion: tq.MinorVersionOne}), tq.SetHeaderType(tq.Authenticate), tq.SetHeaderRandomSessionID(), tq.SetHeaderSeqNo(1))
				p := tq.NewPacket(tq.SetPacketHeader(h), tq.SetPacketBody([]byte{1, 2, 3}))
				if _, err := p.MarshalBinary(); err != nil {
					atomic.AddInt64(&wrong, 1)
				}
			}
		}()
	}
	// let the reloader finish, then stop with connections in every state
	done := make(chan struct{})
	go func() {
		// the reloader is the first goroutine added to wg; wait for its reload count by polling the ops list
		for {
			opsMu.Lock()
			n := 0
			for _, o := range ops {
				if o.Input.(lookupIn).Write {
					n++
				}
			}
			opsMu.Unlock()
			if n > nReloads {
				break
			}
			time.Sleep(2 * time.Millisecond)
			select {
			case <-stop:
				close(done)
				return
			default:
			}
		}
		close(done)
	}()
	select {
	case <-done:
	case <-time.After(4 * time.Minute):
		b.Inconclusive("round %d: reloads did not complete within the watchdog", round)
	}
	act.begin(8)
	close(stop)
	ref.Cancel()
	ref.Net.StallAll()
	wg.Wait()
	ref.Net.StallAll()
	if err := ref.WaitServe(); err != nil {
		b.Inconclusive("round %d: Serve did not return", round)
	}
	act.end(8)
	ref.Close()
	rehash("at the end of the round")
	b.Count("aaa_exchanges", int(exchanges))
	b.Count("writes_to_registered_response_writers", int(ref.Tap.WriterCalls()))
	b.Count("aaa_exchanges_without_single_reply", int(wrong))
	b.Count("reloads", nReloads)
	b.Count("lookup_history_operations", len(ops))
	b.Count("configurations_published_and_rehashed", len(pubs))
	// ---- linearizability of the lookup/reload history
	mixtures := 0
	for _, o := range ops {
		in := o.Input.(lookupIn)
		if in.Write {
			continue
		}
		out := o.Output.(lookupOut)
		kind := "refused"
		if !out.Refused {
			kind = "key"
			// an outcome no generation allows: a key on that key's own deny address, etc.
			if in.Family == 'd' && in.X == out.Gen%200 || in.Family == 'a' && in.X != out.Gen%200 {
				mixtures++
			}
		}
		b.Class("history:%c-probe/%s", in.Family, kind)
	}
	res, info := porcupine.CheckOperationsVerbose(c15Model, ops, 2*time.Minute)
	switch res {
	case porcupine.Ok:
		b.Count("porcupine_histories_linearizable", 1)
	case porcupine.Unknown:
		b.Inconclusive("round %d: porcupine timed out on %d operations", round, len(ops))
	case porcupine.Illegal:
		_ = info
		var sample []string
		sorted := append([]porcupine.Operation{}, ops...)
		sort.Slice(sorted, func(i, j int) bool { return sorted[i].Call < sorted[j].Call })
		for _, o := range sorted {
			in := o.Input.(lookupIn)
			out := o.Output.(lookupOut)
			odd := !in.Write && !out.Refused && (in.Family == 'd' && in.X == out.Gen%200 || in.Family == 'a' && in.X != out.Gen%200)
			if in.Write || odd {
				sample = append(sample, fmt.Sprintf("[%d,%d] %s", o.Call, o.Return, c15Model.DescribeOperation(o.Input, o.Output)))
			}
			if len(sample) > 40 {
				break
			}
		}
		sig := "C15/lookup-history-not-linearizable"
		what := "the recorded lookup/reload history is not linearizable against a single configuration register"
		if mixtures > 0 {
			sig = "C15/lookup-observed-mixture-of-two-configurations"
			what = fmt.Sprintf("%d lookups returned an outcome that no single configuration allows (filters of one generation, providers of another)", mixtures)
		}
		b.Violate(caseNo, sig, what, map[string]interface{}{"format": format, "operations": len(ops), "reloads_and_impossible_lookups": sample})
	}
	b.Sample("round", map[string]interface{}{"format": format, "clients": nClients, "reloads": nReloads, "history_ops": len(ops), "exchanges": exchanges})
}

// c15RealTCP: a short run over real loopback TCP with the stock client.
func c15RealTCP(b *mon.B, r *gen.R, act *activity) {
	sc := richConfig(r, 1)
	sc.Cfg.Secrets[0] = refsrv.Scope("scope0", sc.Scopes[0].Key, "127.0.0.0/8", "::1/128")
	ref, err := refsrv.Start(sc.Cfg, refsrv.Options{ViaYAML: true, Keys: sc.Keys, NoServe: true})
	if err != nil {
		b.Inconclusive("tcp: configuration did not load: %v", err)
		return
	}
	defer ref.Close()
	l, err := net.Listen("tcp", "127.0.0.1:0")
	if err != nil {
		b.Inconclusive("tcp: cannot listen on loopback: %v", err)
		return
	}
	ctx, cancel := context.WithCancel(context.Background())
	srv := tq.NewServer(tap.NewLogger(false), ref.Loader)
	served := make(chan struct{})
	go func() { srv.Serve(ctx, l.(*net.TCPListener)); close(served) }()
	key := []byte(sc.Scopes[0].Key)
	var wg sync.WaitGroup
	var ok int64
	for c := 0; c < 8; c++ {
		wg.Add(1)
		tcpRand := r.Fork(uint64(5000 + c))
		go func(c int) {
			defer wg.Done()
			rr := tcpRand
			cl, err := tq.NewClient(tq.SetClientDialer("tcp", l.Addr().String(), key))
			if err != nil {
				return
			}
			defer cl.Close()
			for k := 0; k < 25; k++ {
				act.begin(1)
				body := bAuthenStart(1, 1, 2, 1, "alice", "p", "r", sc.Users["alice"].Password)
				p := tq.NewPacket(tq.SetPacketHeader(tq.NewHeader(tq.SetHeaderVersion(tq.Version{MajorVersion: 0xc, MinorVersion: 1}), tq.SetHeaderType(tq.Authenticate),
					tq.SetHeaderSessionID(tq.SessionID(rr.U32())))), tq.SetPacketBody(body))
				rep, err := cl.Send(p)
				act.end(1)
				if err == nil && len(rep.Body) > 0 && rep.Body[0] == 1 {
					atomic.AddInt64(&ok, 1)
				}
				act.begin(2)
				p = tq.NewPacket(tq.SetPacketHeader(tq.NewHeader(tq.SetHeaderVersion(tq.Version{MajorVersion: 0xc}), tq.SetHeaderType(tq.Authorize),
					tq.SetHeaderSessionID(tq.SessionID(rr.U32())))), tq.SetPacketBody(bAuthorRequest(6, 1, 1, 1, "alice", "p", "r", "service=shell", "cmd=show", "cmd-arg=version")))
				cl.Send(p)
				act.end(2)
			}
		}(c)
	}
	wg.Wait()
	act.begin(8)
	cancel()
	l.Close()
	select {
	case <-served:
	case <-time.After(30 * time.Second):
		b.Inconclusive("tcp: Serve did not return within 30 s of real time")
	}
	act.end(8)
	b.Count("real_tcp_logins_passed", int(ok))
	if ok == 0 {
		b.Inconclusive("tcp: no login succeeded over loopback")
	}
}
