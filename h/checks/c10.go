package checks

import (
	"fmt"
	"strings"

	"github.com/facebookincubator/tacquito/cmds/server/config"
	xbcrypt "golang.org/x/crypto/bcrypt"
	"verif/h/gen"
	"verif/h/mon"
	"verif/h/refsrv"
	"verif/h/rfc8907"
)

// C10 — authentication passes only for a known user presenting that user's
// password (reference evaluator over configuration + session transcript).

func init() {
	mon.Register(&mon.Check{
		ID:        "C10",
		Batches:   func(tier string) int { return 16 },
		Run:       runC10,
		Technique: "reference-evaluator runtime monitor: an independent evaluation of (generated configuration, packets sent in the session) decides whether PASS is justified (soundness, judged on every reply) and whether a well-formed login must end in PASS (completeness); statuses are read from the raw replies of the reference server",
		Rule: "configurations: 1-3 scopes, users with own hash / keychain / failing keychain / bad hex / no authenticator / unregistered type / authenticator inherited from the first group that has one / user override / duplicate names / same name with different passwords in different scopes; histories: well-formed ASCII (user in START or CONTINUE) and PAP with right, wrong, empty, other-user and other-scope passwords, every action/type/service/minor START, abort at each step, CONTINUE to a fresh session, START mid-exchange, START bodies that also parse as CONTINUE, two sessions interleaved. " +
			"A class is (flow, credential kind of the named user, password relation, final status); distinct_nontrivial counts classes",
		Assumptions: []string{"bcrypt (x/crypto) is a trusted primitive; passwords are 1..72 bytes (bcrypt's own limit), CONTINUE messages <= 200 bytes",
			"soundness is judged generously: PASS is accepted if ANY (user, password) pair the session's own packets carried verifies against the configuration of the connection's scope"},
		MinClasses: func(tier string) int { return 60 },
	})
}

type c10Cred struct {
	Kind string // hash|keychain|keychain-fail|badhex|none|unregistered
	Hash []byte
	Pw   string
}

type c10World struct {
	Cfg    config.ServerConfig
	Keys   *refsrv.KeyStore
	Scopes []scopeInfo
	Creds  []map[string]c10Cred // per scope: user -> credential (last entry wins)
	Names  []string
}

func c10Config(r *gen.R) *c10World {
	w := &c10World{Keys: &refsrv.KeyStore{Hashes: map[string][]byte{}, Fail: map[string]bool{}}}
	ns := 1 + r.Intn(3)
	for k := 0; k < ns; k++ {
		sc := scopeInfo{Name: fmt.Sprintf("s%d", k), Key: "k" + r.Alnum(8), Prefix: fmt.Sprintf("10.%d.0.0/16", k), Octet: k}
		w.Scopes = append(w.Scopes, sc)
		w.Cfg.Secrets = append(w.Cfg.Secrets, refsrv.Scope(sc.Name, sc.Key, sc.Prefix))
		w.Creds = append(w.Creds, map[string]c10Cred{})
	}
	pw := func() string { return "p" + r.Alnum(5+r.Intn(20)) }
	gpw := pw()
	gHash := config.Group{Name: "g-hash", Authenticator: refsrv.Bcrypt(gpw)}
	gpw2 := pw()
	gHash2 := config.Group{Name: "g-hash2", Authenticator: refsrv.Bcrypt(gpw2)}
	gNone := config.Group{Name: "g-none", Commands: []config.Command{permitAll()}}
	gUnreg := config.Group{Name: "g-unreg", Authenticator: &config.Authenticator{Type: config.SHA512}}
	names := []string{"ann", "ben", "cat", "dan", "eve", "fay", "gus", "hal", "ivy", "jon", "kim", "lee", string(gen.Fill('u', 255)), "x y%s", "Ann"}
	nu := 6 + r.Intn(12)
	for i := 0; i < nu; i++ {
		name := names[r.Intn(len(names))]
		u := config.User{Name: name}
		// scopes
		for k := 0; k < ns; k++ {
			if r.Chance(2, 3) {
				u.Scopes = append(u.Scopes, w.Scopes[k].Name)
			}
		}
		if len(u.Scopes) == 0 {
			u.Scopes = []string{w.Scopes[r.Intn(ns)].Name}
		}
		var cred c10Cred
		switch r.Intn(11) {
		case 10:
			// keychain-backed authenticator inherited from a group: every member has its own
			// keychain entry
			p := pw()
			u.Groups = []config.Group{gNone, {Name: "g-keychain", Authenticator: &config.Authenticator{Type: config.BCRYPT, Options: map[string]string{"group": "grp"}}}}
			cred = c10Cred{Kind: "keychain", Hash: refsrv.RawHash(p), Pw: p}
		case 0, 1, 2:
			p := pw()
			u.Authenticator = refsrv.Bcrypt(p)
			cred = c10Cred{Kind: "hash", Hash: refsrv.RawHash(p), Pw: p}
		case 3:
			p := pw()
			u.Authenticator = &config.Authenticator{Type: config.BCRYPT, Options: map[string]string{"group": "grp"}}
			cred = c10Cred{Kind: "keychain", Hash: refsrv.RawHash(p), Pw: p}
		case 4:
			u.Authenticator = &config.Authenticator{Type: config.BCRYPT, Options: map[string]string{"hash": "nothex!"}}
			cred = c10Cred{Kind: "badhex"}
			if r.Bool() {
				// keychain path whose keychain answers with an empty hash and no error
				u.Authenticator = &config.Authenticator{Type: config.BCRYPT, Options: map[string]string{"group": "empty"}}
				cred = c10Cred{Kind: "keychain-empty"}
			}
		case 5:
			cred = c10Cred{Kind: "none"}
			if r.Bool() {
				u.Groups = []config.Group{gNone}
			}
		case 6:
			u.Authenticator = &config.Authenticator{Type: config.SHA512, Options: map[string]string{"hash": refsrv.HashOption("x")}}
			cred = c10Cred{Kind: "unregistered"}
		case 7:
			// inherited from the first group that has one
			u.Groups = []config.Group{gNone, gHash, gHash2}
			cred = c10Cred{Kind: "hash", Hash: refsrv.RawHash(gpw), Pw: gpw}
			if r.Bool() {
				u.Groups = []config.Group{gHash2, gNone, gHash}
				cred = c10Cred{Kind: "hash", Hash: refsrv.RawHash(gpw2), Pw: gpw2}
			}
		case 8:
			// user level overrides the group
			p := pw()
			u.Groups = []config.Group{gHash}
			u.Authenticator = refsrv.Bcrypt(p)
			cred = c10Cred{Kind: "hash", Hash: refsrv.RawHash(p), Pw: p}
		case 9:
			// first group with an authenticator has an unregistered type: default deny
			u.Groups = []config.Group{gUnreg, gHash}
			cred = c10Cred{Kind: "unregistered"}
		}
		w.Cfg.Users = append(w.Cfg.Users, u)
		for k := 0; k < ns; k++ {
			if u.HasScope(w.Scopes[k].Name) {
				w.Creds[k][name] = cred // a later entry of the same name overrides
			}
		}
	}
	// the keychain is keyed by user name only: make it consistent with the LAST
	// keychain-kind entry of each name, and drop names whose scopes disagree
	kc := map[string]c10Cred{}
	for k := range w.Creds {
		for n, c := range w.Creds[k] {
			if c.Kind == "keychain" {
				if old, ok := kc[n]; ok && old.Pw != c.Pw {
					// two scopes want different keychain passwords for one name: give the
					// keychain one of them and re-label the other as a known mismatch
					c2 := w.Creds[k][n]
					c2.Hash, c2.Pw = old.Hash, old.Pw
					w.Creds[k][n] = c2
					continue
				}
				kc[n] = c
			}
		}
	}
	for n, c := range kc {
		w.Keys.Hashes[n] = c.Hash
	}
	for k := range w.Creds {
		for n, c := range w.Creds[k] {
			if c.Kind == "keychain-empty" {
				if _, taken := kc[n]; taken {
					// the name also has a real keychain entry in another scope: the keychain is keyed
					// by name only, so this entry really has that credential
					c2 := kc[n]
					w.Creds[k][n] = c2
				} else {
					w.Keys.Hashes[n] = []byte{}
				}
			}
		}
	}
	seen := map[string]bool{}
	for _, u := range w.Cfg.Users {
		if !seen[u.Name] {
			seen[u.Name] = true
			w.Names = append(w.Names, u.Name)
		}
	}
	return w
}

// justified: may a PASS be answered given these candidate pairs?
func (w *c10World) justified(scope int, users, passwords []string) bool {
	for _, u := range users {
		c, ok := w.Creds[scope][u]
		if !ok || c.Hash == nil {
			continue
		}
		for _, p := range passwords {
			if p == "" {
				continue
			}
			if xbcrypt.CompareHashAndPassword(c.Hash, []byte(p)) == nil {
				return true
			}
		}
	}
	return false
}

type c10Session struct {
	// Eligible: the START is a supported method in its protocol version (ASCII login with
	// minor version 0, PAP login with minor version 1). Anything else must never PASS.
	Eligible bool
	Aborted  bool // a CONTINUE with the abort flag was sent
	// OutOfPlace: the password reached the server in a packet that is out of place for the
	// exchange; such a session must never PASS.
	OutOfPlace bool
	Flow       string
	Pkts       []pktPlan
	Users      []string // every user name the packets carry
	Passwords  []string // every password candidate the packets carry
	WellFormed bool     // a well-formed ASCII or PAP login naming User with Password
	User       string
	Password   string
	PwRel      string
}

func c10Flow(r *gen.R, w *c10World, scope int) c10Session {
	// pick the user and the password relation
	user := w.Names[r.Intn(len(w.Names))]
	if r.Chance(1, 8) {
		user = "ghost" + r.Alnum(3)
	}
	cred, known := w.Creds[scope][user]
	pwRel := "wrong"
	pw := "w" + r.Alnum(6+r.Intn(10))
	switch r.Intn(7) {
	case 0, 1, 2:
		if known && cred.Pw != "" {
			pw, pwRel = cred.Pw, "right"
		}
	case 3:
		pw, pwRel = "", "empty"
		if r.Bool() {
			// longer than bcrypt's 72-byte limit (never a configured password here)
			pw, pwRel = "L"+r.Alnum(72+r.Intn(128)), "wrong-long"
		}
	case 4:
		// the password of another user of this scope
		for n, c := range w.Creds[scope] {
			if n != user && c.Pw != "" {
				pw, pwRel = c.Pw, "other-user"
				break
			}
		}
	case 5:
		// the password the same name has in another scope
		for k := range w.Creds {
			if c, ok := w.Creds[k][user]; ok && k != scope && c.Pw != "" && (!known || c.Pw != cred.Pw) {
				pw, pwRel = c.Pw, "other-scope"
				break
			}
		}
	}
	s := c10Session{User: user, Password: pw, PwRel: pwRel, Users: []string{user}, Passwords: []string{pw}}
	switch r.Pick(0, 1, 2, 3, 4, 5, 6, 7, 7, 7, 8, 9, 10, 11, 12, 13, 14, 15) {
	case 15:
		// the abort bit together with other bits of the flag octet, on the user-name or the
		// password answer: still an abort
		fl := r.Pick(0x03, 0x81, 0xff, 0x05, 0x41)
		rc := asciiLogin(user, r.Bool(), pw, 0)
		at := 1 + r.Intn(len(rc.Pkts)-1)
		v, _ := rfc8907.Decode(rfc8907.AuthenContinue, rc.Pkts[at].Body)
		rc.Pkts[at].Body = bAuthenContinue(fl, string(v.Texts["user_msg"]), "")
		s.Flow, s.Pkts, s.Eligible = fmt.Sprintf("ascii-abort-with-extra-flag-bits@%d", at+1), rc.Pkts, true
	case 12:
		// at the password prompt the client sends a START (PAP- or ASCII-shaped) whose data
		// field holds the password, instead of a CONTINUE
		s.Flow, s.Eligible, s.OutOfPlace = "start-at-password-prompt", true, true
		rc := asciiLogin(user, r.Bool(), pw, 0)
		last := len(rc.Pkts) - 1
		shape := r.Pick(1, 2)
		rc.Pkts[last] = pktPlan{Type: 1, Minor: r.Intn(2), Body: bAuthenStart(1, 1, shape, 1, r.PickS(user, "ghost", ""), "p", "r", pw)}
		s.Pkts = rc.Pkts
	case 13:
		// abort, then the right password in a further CONTINUE of the same session
		s.Flow, s.Eligible, s.OutOfPlace = "password-after-abort", true, true
		rc := asciiLogin(user, true, pw, 0)
		rc.Pkts = []pktPlan{rc.Pkts[0], {Type: 1, Body: bAuthenContinue(1, "", "")}, {Type: 1, Body: bAuthenContinue(0, pw, "")}}
		s.Pkts = rc.Pkts
	case 14:
		// a PAP attempt for an unknown user fails, then a CONTINUE with a real password follows
		s.Flow, s.Eligible, s.OutOfPlace = "continue-after-failed-pap", true, true
		s.Pkts = []pktPlan{{Type: 1, Minor: 1, Body: bAuthenStart(1, 1, 2, 1, "ghost-"+r.Alnum(3), "p", "r", "x")}, {Type: 1, Body: bAuthenContinue(0, pw, "")}}
	case 0, 1:
		rc := asciiLogin(user, true, pw, 0)
		s.Flow, s.Pkts, s.WellFormed, s.Eligible = "ascii/user-in-start", rc.Pkts, true, true
	case 2, 3:
		rc := asciiLogin(user, false, pw, 0)
		s.Flow, s.Pkts, s.WellFormed, s.Eligible = "ascii/user-in-continue", rc.Pkts, user != "", true
	case 4, 5:
		rc := papLogin(user, pw, 1)
		s.Flow, s.Pkts, s.WellFormed, s.Eligible = "pap", rc.Pkts, true, true
	case 6:
		at := 2 + r.Intn(2)
		inStart := r.Bool()
		rc := asciiLogin(user, inStart, pw, at)
		s.Flow, s.Pkts, s.Eligible, s.Aborted = fmt.Sprintf("ascii-abort@%d", at), rc.Pkts, true, true
	case 7:
		action, atype, service, minor := r.Pick(1, 2, 4), r.Pick(1, 2, 3, 4, 5, 6), r.Intn(10), r.Intn(2)
		s.Flow = "start-combination"
		s.Eligible = action == 1 && (atype == 1 && minor == 0 || atype == 2 && minor == 1)
		if !s.Eligible {
			s.Flow = fmt.Sprintf("unsupported-start(action%d,type%d,service%d,minor%d)", action, atype, service, minor)
		}
		s.Pkts = []pktPlan{{Type: 1, Minor: minor, Body: bAuthenStart(action, r.Intn(16), atype, service, user, "p", "r", pw)}}
		// follow with a CONTINUE carrying the password as well
		if r.Bool() {
			s.Pkts = append(s.Pkts, pktPlan{Type: 1, Minor: minor, Body: bAuthenContinue(0, pw, "")})
		}
	case 8:
		s.Flow = "continue-to-fresh-session"
		s.Pkts = []pktPlan{{Type: 1, Body: bAuthenContinue(0, pw, "")}, {Type: 1, Body: bAuthenContinue(0, user, "")}, {Type: 1, Body: bAuthenContinue(0, pw, "")}}
		s.Users = append(s.Users, pw)
		s.Passwords = append(s.Passwords, user)
	case 9:
		s.Flow = "start-mid-exchange"
		s.Eligible = true
		rc := asciiLogin(user, false, pw, 0)
		other := w.Names[r.Intn(len(w.Names))]
		rc.Pkts[1] = pktPlan{Type: 1, Body: bAuthenStart(1, 1, 1, 1, other, "p", "r", "")}
		s.Pkts = rc.Pkts
		s.Users = append(s.Users, other)
	case 10:
		// a well-formed ASCII START that also parses as a CONTINUE: long port/rem_addr
		s.Flow = "ascii/start-also-parses-as-continue"
		s.Eligible = true
		port := string(gen.Fill('p', 127))
		rem := string(gen.Fill('r', 127))
		body := bAuthenStart(1, r.Pick(0, 1), 1, r.Pick(0, 1), user, port, rem, "")
		s.Pkts = []pktPlan{{Type: 1, Body: body}, {Type: 1, Body: bAuthenContinue(0, pw, "")}}
		s.WellFormed = user != "" // user in START, then the password
		if _, c := rfc8907.Decode(rfc8907.AuthenContinue, body); c == rfc8907.OK || c == rfc8907.Trailing {
			s.Flow += "(does)"
		}
	case 11:
		// a CONTINUE (password) whose bytes are also a plausible START is impossible below 256
		// bytes; instead: the password answer carries data, and flags other than abort
		s.Flow = "ascii/continue-with-data-and-odd-flags"
		rc := asciiLogin(user, true, pw, 0)
		rc.Pkts[1].Body = bAuthenContinue(r.Pick(0, 2, 4, 0xfe), pw, "d"+r.Alnum(5))
		s.Pkts, s.WellFormed, s.Eligible = rc.Pkts, true, true
	}
	if len(pw) > 72 || pw == "" || user == "" {
		s.WellFormed = false
	}
	// aborted = a CONTINUE that really carries the abort flag was sent (not the first packet,
	// which is a START whatever else it may parse as)
	s.Aborted = false
	for i, p := range s.Pkts {
		if i == 0 {
			continue
		}
		if v, c := rfc8907.Decode(rfc8907.AuthenContinue, p.Body); c == rfc8907.OK && v.Ints["flags"]&1 != 0 {
			if _, c2 := rfc8907.Decode(rfc8907.AuthenStart, p.Body); c2 != rfc8907.OK {
				s.Aborted = true
			}
		}
	}
	return s
}

func runC10(b *mon.B) {
	r := gen.New(uint64(b.Seed), 0xC10, uint64(b.Index))
	caseNo := 0
	nCfg := b.N(3, 40)
	perCfg := b.NQ(120)
	for ci := 0; ci < nCfg; ci++ {
		w := c10Config(r)
		ref, err := refsrv.Start(w.Cfg, refsrv.Options{ViaYAML: ci%2 == 0, Keys: w.Keys})
		if err != nil {
			b.Inconclusive("configuration did not load: %v", err)
			continue
		}
		ref.Net.SetKeepLog(false)
		for k := 0; k < perCfg; k++ {
			caseNo++
			scope := r.Intn(len(w.Scopes))
			nSess := 1
			if k%4 == 3 {
				nSess = 2
			}
			sess := make([]c10Session, nSess)
			for i := range sess {
				sess[i] = c10Flow(r, w, scope)
			}
			var recs []recipe
			for _, s := range sess {
				recs = append(recs, recipe{Pkts: s.Pkts})
			}
			order := interleave(r, recs)
			if !b.Want(caseNo) {
				continue
			}
			rc := newRefConn(ref, w.Scopes[scope].Octet<<16|(k%60000+1), []byte(w.Scopes[scope].Key))
			sids := make([]uint32, nSess)
			pos := make([]int, nSess)
			finals := make([]int, nSess)
			passed := make([]bool, nSess)
			for i := range sids {
				sids[i] = r.U32()
				finals[i] = -1
			}
			dead := false
			for _, si := range order {
				if dead {
					break
				}
				p := sess[si].Pkts[pos[si]]
				h := rfc8907.Header{Major: 0xc, Minor: p.Minor, Type: 1, Seq: 1 + 2*pos[si], Flags: p.Flags, Session: sids[si]}
				pos[si]++
				res := rc.send(h, p.Body, true)
				if res.Err != nil {
					b.Inconclusive("watchdog")
					dead = true
					break
				}
				for _, rp := range res.Replies {
					if rp.Header.Session != sids[si] {
						continue
					}
					finals[si] = rp.status()
					if rp.status() == 1 {
						passed[si] = true
					}
				}
				if res.State.Closed {
					dead = true
				}
			}
			rc.c.EOF()
			ref.Net.Forget(rc.c)
			for si, s := range sess {
				b.Eval(1)
				cred, known := w.Creds[scope][s.User]
				ck := "unknown-user"
				if known {
					ck = cred.Kind
				}
				b.Class("%s/%s/pw=%s/final=%d/mux=%d", strings.SplitN(s.Flow, "(", 2)[0], ck, s.PwRel, finals[si], nSess)
				b.Count(fmt.Sprintf("final_status_%d", finals[si]), 1)
				wit := func() map[string]interface{} {
					return map[string]interface{}{"flow": s.Flow, "user": clip(s.User), "user_credential": ck, "password_relation": s.PwRel, "scope": w.Scopes[scope].Name,
						"final_status": finals[si], "multiplexed_sessions": nSess, "via_yaml": ci%2 == 0}
				}
				if passed[si] && !s.Eligible {
					b.Violate(caseNo, "C10/pass-for-unsupported-method-or-version", fmt.Sprintf("session [%s] was answered PASS; only ASCII logins (minor version 0) and PAP logins (minor version 1) may pass", s.Flow), wit())
				} else if passed[si] && s.OutOfPlace {
					b.Violate(caseNo, "C10/pass-for-out-of-place-packet/"+s.Flow, fmt.Sprintf("session [%s] was answered PASS although the password arrived in a packet that is out of place for the exchange", s.Flow), wit())
				} else if passed[si] && s.Aborted {
					b.Violate(caseNo, "C10/pass-after-abort", fmt.Sprintf("session [%s] sent the abort flag and was still answered PASS", s.Flow), wit())
				}
				if passed[si] && !w.justified(scope, s.Users, s.Passwords) {
					b.Violate(caseNo, fmt.Sprintf("C10/unjustified-pass/%s/%s/pw-%s", strings.SplitN(s.Flow, "(", 2)[0], ck, s.PwRel),
						fmt.Sprintf("session [%s] was answered PASS although no (user, password) pair it carried verifies in scope %s (user credential: %s, password: %s)", s.Flow, w.Scopes[scope].Name, ck, s.PwRel), wit())
				}
				if s.WellFormed && s.PwRel == "right" && known && cred.Hash != nil && !dead {
					if xbcrypt.CompareHashAndPassword(cred.Hash, []byte(s.Password)) == nil && !passed[si] {
						b.Violate(caseNo, fmt.Sprintf("C10/well-formed-login-not-passed/%s/%s", s.Flow, ck),
							fmt.Sprintf("well-formed login [%s] by a known user with the right password ended with status %d instead of PASS", s.Flow, finals[si]), wit())
					} else if passed[si] {
						b.Count("well_formed_logins_passed", 1)
					}
				}
				if k%331 == 0 && si == 0 {
					b.Sample("session", wit())
				}
			}
		}
		ref.Close()
	}
}
