package checks

import (
	"bytes"
	"context"
	"fmt"
	"runtime"
	"runtime/debug"
	"strings"
	"syscall"

	tq "github.com/facebookincubator/tacquito"
	"verif/h/gen"
	"verif/h/mon"
	"verif/h/rfc8907"
	"verif/h/simnet"
)

// C04 — decoding arbitrary bytes is total, memory-safe and bounded.
// Red-zone sanitizer: every input is decoded from three placements —
//   exact   : len == cap on the heap
//   canary  : cap = len+4096, the spare capacity filled with 'Z'
//   guard   : the input ends exactly at a page boundary; the spare capacity
//             lies in a PROT_NONE page, so touching one byte beyond len faults
//             (debug.SetPanicOnFault turns the fault into a recoverable panic)
// and the outcomes are compared; allocation is metered around the call.

func init() {
	mon.Register(&mon.Check{
		ID:        "C04",
		Batches:   func(tier string) int { return 16 },
		Run:       runC04,
		RaceAlso:  true,
		Technique: "red-zone sanitizer built for the decoders (guard page + canary capacity + allocation meter) with online assertions on every decode of a hostile corpus; thorough tier repeats a batch under -race/checkptr",
		Rule: "inputs: valid encodings of all seven bodies, every truncation, every length element rewritten to edge values, enum rewrites, bit flips, trailing bytes, random bytes (dense 0..64, up to 70000), headers with length fields 0/len-1/len/len+1/65536/65537/2^31/2^32-1 in front of short and long bodies; each decoded as Header, Packet, every body type and through Request.Fields for every header type. " +
			"A class is (decoder, input kind, outcome, input-length bucket); distinct_nontrivial counts classes seen",
		Assumptions: []string{"reads before the start of the input are impossible in safe Go and are not monitored",
			"allocation is metered with runtime.ReadMemStats TotalAlloc in a single-goroutine worker; bound 16*len(input)+64KiB"},
		MinClasses:       func(tier string) int { return 150 },
		CrashIsViolation: true,
	})
}

const pageSize = 4096

type arena struct {
	mem   []byte
	guard int // offset of the PROT_NONE page
}

func newArena(maxLen int) (*arena, error) {
	pages := (maxLen+pageSize-1)/pageSize + 1
	mem, err := syscall.Mmap(-1, 0, (pages+1)*pageSize, syscall.PROT_READ|syscall.PROT_WRITE, syscall.MAP_ANON|syscall.MAP_PRIVATE)
	if err != nil {
		return nil, err
	}
	if err := syscall.Mprotect(mem[pages*pageSize:], syscall.PROT_NONE); err != nil {
		return nil, err
	}
	return &arena{mem: mem, guard: pages * pageSize}, nil
}

// place copies in so that it ends at the guard page; the returned slice has
// 4096 bytes of spare capacity, all of it unreadable.
func (a *arena) place(in []byte) []byte {
	start := a.guard - len(in)
	copy(a.mem[start:a.guard], in)
	return a.mem[start:a.guard:len(a.mem)]
}

func placeExact(in []byte) []byte {
	out := make([]byte, len(in))
	copy(out, in)
	return out[:len(in):len(in)]
}

func placeCanary(in []byte) []byte {
	out := make([]byte, len(in)+pageSize)
	copy(out, in)
	for i := len(in); i < len(out); i++ {
		out[i] = 'Z'
	}
	return out[:len(in)]
}

type decodeOutcome struct {
	ok       bool
	errText  string
	panicked string // panic value
	stack    string
	summary  string // canonical rendering of the value (set only when safe to read)
	alloc    uint64
	overread bool
}

var memStats runtime.MemStats

// heapAllocs is the exact cumulative number of heap bytes allocated so far
// (ReadMemStats flushes the per-P caches, unlike runtime/metrics).
func heapAllocs() uint64 {
	runtime.ReadMemStats(&memStats)
	return memStats.TotalAlloc
}

// decodeTarget is one decoder under test.
type decodeTarget struct {
	name string
	// run decodes in and returns (ok, canonical summary). It must not touch
	// bytes of aliased results beyond availLen.
	run func(in []byte) (bool, func() string, string)
	// slack is added to the allocation bound: what the harness itself allocates inside run
	// (the in-memory connection of the stream target)
	slack uint64
}

func constSummary(s string) func() string { return func() string { return s } }

func summarizeValue(v *rfc8907.Value) string {
	var sb strings.Builder
	sb.WriteString(v.Layout)
	for _, f := range intFields(v.Layout) {
		fmt.Fprintf(&sb, "|%s=%d", f, v.Ints[f])
	}
	for _, tf := range textFields(v.Layout) {
		fmt.Fprintf(&sb, "|%s=%x", tf.Name, v.Texts[tf.Name])
	}
	for _, a := range v.Args {
		fmt.Fprintf(&sb, "|arg=%x", a)
	}
	return sb.String()
}

func bodyTarget(layout string) decodeTarget {
	return decodeTarget{name: layout, run: func(in []byte) (bool, func() string, string) {
		d := newLib(layout)
		if err := tq.Unmarshal(in, d); err != nil {
			return false, nil, err.Error()
		}
		return true, func() string { return summarizeValue(fromLib(d)) }, ""
	}}
}

var headerTarget = decodeTarget{name: "header", run: func(in []byte) (bool, func() string, string) {
	var h tq.Header
	if err := tq.Unmarshal(in, &h); err != nil {
		return false, nil, err.Error()
	}
	return true, func() string { return fmt.Sprintf("%+v", h) }, ""
}}

var packetTarget = decodeTarget{name: "packet", run: func(in []byte) (bool, func() string, string) {
	var p tq.Packet
	if err := tq.Unmarshal(in, &p); err != nil {
		return false, nil, err.Error()
	}
	if p.Header == nil {
		return true, constSummary("nil-header"), ""
	}
	avail := len(in) - 12
	if len(p.Body) > avail {
		// do not read it: under the guard placement that would fault in the monitor
		return true, constSummary(fmt.Sprintf("OVERREAD body=%d available=%d", len(p.Body), avail)), ""
	}
	return true, func() string { return fmt.Sprintf("%+v|%x", *p.Header, p.Body) }, ""
}}

// streamTarget decodes the bytes the way a receiver on a connection does: they are the whole reply
// stream (then EOF) a Client.Send finds on its connection.
var streamTarget = decodeTarget{name: "client-stream", slack: 32 << 10, run: func(in []byte) (bool, func() string, string) {
	world := simnet.New()
	world.SetKeepLog(false)
	conn := world.NewConn(simnet.RemoteFor(1))
	conn.Feed(in)
	conn.EOF()
	cl := tq.NewClientFromConn(conn, []byte("stream-secret"))
	req := tq.NewPacket(tq.SetPacketHeader(tq.NewHeader(tq.SetHeaderVersion(tq.Version{MajorVersion: 0xc}), tq.SetHeaderType(tq.Authenticate),
		tq.SetHeaderSeqNo(1), tq.SetHeaderSessionID(7))), tq.SetPacketBody([]byte{1, 1, 1, 1, 0, 0, 0, 0}))
	p, err := cl.Send(req)
	if err != nil {
		return false, nil, err.Error()
	}
	if p == nil || p.Header == nil {
		return true, constSummary("nil-packet"), ""
	}
	avail := len(in) - 12
	if len(p.Body) > avail {
		return true, constSummary(fmt.Sprintf("OVERREAD body=%d available=%d", len(p.Body), avail)), ""
	}
	return true, func() string { return fmt.Sprintf("%+v|%x", *p.Header, p.Body) }, ""
}}

func fieldsTarget(typ int) decodeTarget {
	return decodeTarget{name: fmt.Sprintf("request-fields-type%d", typ), run: func(in []byte) (bool, func() string, string) {
		req := tq.Request{Header: tq.Header{Version: tq.Version{MajorVersion: 0xc}, Type: tq.HeaderType(typ), SeqNo: 1, SessionID: 7, Length: uint32(len(in))},
			Body: in, Context: context.Background()}
		m := req.Fields(tq.ContextConnRemoteAddr)
		if m == nil {
			return false, nil, "unknown packet"
		}
		return true, func() string { return mon.JSON(m) }, ""
	}}
}

func attempt(t decodeTarget, in []byte, meter bool) (o decodeOutcome) {
	defer func() {
		if p := recover(); p != nil {
			o.panicked = fmt.Sprint(p)
			o.stack = string(debug.Stack())
		}
	}()
	var before uint64
	if meter {
		before = heapAllocs()
	}
	ok, sum, errText := t.run(in)
	if meter {
		o.alloc = heapAllocs() - before
	}
	o.ok, o.errText = ok, errText
	if sum != nil {
		o.summary = sum() // outside the metered region
	}
	return o
}

type c04ctx struct {
	b     *mon.B
	arena *arena
	idx   int
}

func (c *c04ctx) judge(t decodeTarget, kind string, in []byte) {
	b := c.b
	c.idx++
	idx := c.idx
	if !b.Want(idx) {
		return
	}
	b.Eval(1)
	witness := func() map[string]interface{} {
		return map[string]interface{}{"decoder": t.name, "input_kind": kind, "input_len": len(in), "input": hexs(in)}
	}
	oe := attempt(t, placeExact(in), true)
	oc := attempt(t, placeCanary(in), false)
	og := attempt(t, c.arena.place(in), false)
	outcome := "error"
	if oe.ok {
		outcome = "value"
	}
	b.Class("%s/%s/%s/len%s", t.name, kind, outcome, lenBucket(len(in)))
	for _, pl := range []struct {
		name string
		o    decodeOutcome
	}{{"exact", oe}, {"canary", oc}, {"guard", og}} {
		if pl.o.panicked != "" {
			frame := mon.FirstTacquitoFrame(pl.o.stack)
			w := witness()
			w["placement"] = pl.name
			w["panic"] = pl.o.panicked
			w["stack"] = firstLines(pl.o.stack, 30)
			if strings.Contains(pl.o.panicked, "invalid memory address") || strings.Contains(pl.o.panicked, "fault") {
				b.Violate(idx, fmt.Sprintf("C04/over-read/%s/%s", t.name, frame),
					fmt.Sprintf("%s touched memory beyond the end of a %d-byte input (guard page hit in %s)", t.name, len(in), frame), w)
			} else {
				b.Violate(idx, fmt.Sprintf("C04/panic/%s/%s", t.name, frame),
					fmt.Sprintf("%s panicked on a %d-byte input: %s", t.name, len(in), pl.o.panicked), w)
			}
			return
		}
		if strings.HasPrefix(pl.o.summary, "OVERREAD") {
			w := witness()
			w["placement"] = pl.name
			w["result"] = pl.o.summary
			b.Violate(idx, fmt.Sprintf("C04/exposes-bytes-beyond-input/%s", t.name),
				fmt.Sprintf("%s returned without error a body longer than the input holds (%s)", t.name, pl.o.summary), w)
			return
		}
	}
	if oe.ok != oc.ok || oe.ok != og.ok || oe.summary != oc.summary || oe.summary != og.summary {
		w := witness()
		w["exact"], w["canary"], w["guard"] = clip(oe.summary+oe.errText), clip(oc.summary+oc.errText), clip(og.summary+og.errText)
		b.Violate(idx, fmt.Sprintf("C04/result-depends-on-capacity/%s", t.name),
			fmt.Sprintf("%s gives different results for the same %d bytes depending on what lies beyond len", t.name, len(in)), w)
		return
	}
	if strings.Contains(oc.summary, "5a5a5a5a5a5a5a5a") && !bytes.Contains(in, []byte("ZZZZZZZZ")) {
		b.Violate(idx, fmt.Sprintf("C04/exposes-bytes-beyond-input/%s", t.name), "canary bytes from the spare capacity appear in the decoded value", witness())
		return
	}
	// allocation bound
	bound := uint64(16*len(in)+64*1024) + t.slack
	if oe.alloc > bound {
		w := witness()
		w["allocated"] = oe.alloc
		w["bound"] = bound
		b.Violate(idx, fmt.Sprintf("C04/unbounded-allocation/%s", t.name),
			fmt.Sprintf("%s allocated %d bytes for a %d-byte input (bound %d)", t.name, oe.alloc, len(in), bound), w)
	}
	if len(in) >= 64 {
		b.Max("max:alloc_per_input_byte_x100("+t.name+")", int(oe.alloc*100/uint64(len(in))))
	} else {
		b.Max("max:alloc_bytes_small_input("+t.name+")", int(oe.alloc))
	}
	if !oe.ok {
		return
	}
	b.Count("decoded_values("+t.name+")", 1)
	// success: validation + provenance
	if _, isBody := rfc8907.Layouts[t.name]; isBody {
		d := newLib(t.name)
		_ = tq.Unmarshal(placeExact(in), d)
		if verr := d.(validator).Validate(); verr != nil {
			b.Violate(idx, "C04/invalid-value-accepted/"+t.name, fmt.Sprintf("%s decoded without error to a value its own Validate() rejects: %v", t.name, verr), witness())
			return
		}
		v := fromLib(d)
		if rule := rfcRule(v); rule != "" {
			b.Violate(idx, "C04/invalid-value-accepted/"+t.name+"/"+rule, fmt.Sprintf("%s decoded without error to a value breaking rule %s", t.name, rule), witness())
			return
		}
		// every variable-length field consists of bytes from inside the input:
		// in wire order they form one contiguous region of it
		var cat []byte
		seen := map[string]bool{}
		for _, e := range rfc8907.Layouts[t.name] {
			if e.Kind == rfc8907.Text && !seen[e.Name] {
				seen[e.Name] = true
				cat = append(cat, v.Texts[e.Name]...)
			}
		}
		for _, a := range v.Args {
			cat = append(cat, a...)
		}
		if !bytes.Contains(in, cat) {
			b.Violate(idx, "C04/invented-bytes/"+t.name, fmt.Sprintf("%s: the decoded variable-length fields are not a region of the input", t.name), witness())
			return
		}
		// differential against the reference decoder on self-consistent inputs
		if rv, cls := rfc8907.Decode(t.name, in); cls == rfc8907.OK || cls == rfc8907.Trailing {
			if f := diffValues(v, rv); f != "" {
				b.Violate(idx, "C04/decoded-value-differs-from-layout/"+t.name+"/"+f,
					fmt.Sprintf("%s: field %s differs from what the RFC layout says these self-consistent bytes carry", t.name, f), witness())
				return
			}
			b.Count("agreed_with_reference_decoder", 1)
		}
	}
	if t.name == "header" {
		var h tq.Header
		_ = tq.Unmarshal(placeExact(in), &h)
		if verr := h.Validate(); verr != nil {
			b.Violate(idx, "C04/invalid-value-accepted/header", fmt.Sprintf("header decoded without error but Validate() says %v", verr), witness())
		}
	}
	if t.name == "packet" {
		var p tq.Packet
		_ = tq.Unmarshal(placeExact(in), &p)
		if p.Header != nil {
			if len(p.Body) > 65536 {
				b.Violate(idx, "C04/body-over-cap/packet", fmt.Sprintf("packet body of %d bytes accepted", len(p.Body)), witness())
			}
			if int(p.Header.Length) != len(p.Body) {
				b.Violate(idx, "C04/packet-length-mismatch", fmt.Sprintf("packet decoded without error with header length %d and %d body bytes", p.Header.Length, len(p.Body)), witness())
			}
			if verr := p.Header.Validate(); verr != nil {
				b.Violate(idx, "C04/invalid-value-accepted/packet", fmt.Sprintf("packet header invalid: %v", verr), witness())
			}
		}
	}
}

func firstLines(s string, n int) string {
	lines := strings.Split(s, "\n")
	if len(lines) > n {
		lines = lines[:n]
	}
	return strings.Join(lines, "\n")
}

func clip(s string) string {
	if len(s) > 300 {
		return s[:300] + "…"
	}
	return s
}

func runC04(b *mon.B) {
	debug.SetPanicOnFault(true)
	ar, err := newArena(300000)
	if err != nil {
		b.Inconclusive("cannot map the guard arena: %v", err)
		return
	}
	r := gen.New(uint64(b.Seed), 0xC04, uint64(b.Index))
	c := &c04ctx{b: b, arena: ar}
	bodyTargets := map[string]decodeTarget{}
	for _, l := range allLayouts {
		bodyTargets[l] = bodyTarget(l)
	}
	fields := []decodeTarget{fieldsTarget(1), fieldsTarget(2), fieldsTarget(3), fieldsTarget(9)}
	typeOf := map[string]int{rfc8907.AuthenStart: 1, rfc8907.AuthenReply: 1, rfc8907.AuthenContinue: 1, rfc8907.AuthorRequest: 2, rfc8907.AuthorReply: 2, rfc8907.AcctRequest: 3, rfc8907.AcctReply: 3}

	// --- hostile variants of valid encodings, against the own decoder, the
	// sibling decoders of the same packet type (what the bad-secret detector
	// and Request.Fields do) and Request.Fields itself
	for k := 0; k < b.N(14, 260); k++ {
		layout := allLayouts[(k+b.Index)%len(allLayouts)]
		v := randomValue(r, layout)
		if k%3 != 0 { // keep most of them small so that truncations are exhaustive
			if len(v.Args) > 6 {
				v.Args = v.Args[:6]
			}
			for _, tf := range textFields(layout) {
				if len(v.Texts[tf.Name]) > 40 {
					v.Texts[tf.Name] = v.Texts[tf.Name][:40]
				}
			}
		}
		sib := rfc8907.LayoutsOfType[typeOf[layout]]
		hostileBodies(r, v, k%3 != 0, func(kind string, in []byte) {
			c.judge(bodyTargets[layout], kind, in)
			other := sib[r.Intn(len(sib))]
			if other != layout {
				c.judge(bodyTargets[other], kind+"-as-sibling", in)
			}
			if r.Chance(1, 3) {
				c.judge(fields[typeOf[layout]-1], kind, in)
			}
		})
		// as a packet: header announcing various lengths in front of this body
		enc, _ := v.Encode()
		if len(enc) > 70000 {
			continue
		}
		for _, ln := range []int64{0, int64(len(enc)) - 1, int64(len(enc)), int64(len(enc)) + 1, 100, 65536, 65537, 1 << 31, 1<<32 - 1} {
			if ln < 0 {
				continue
			}
			h := rfc8907.Header{Major: 0xc, Minor: r.Intn(2), Type: typeOf[layout], Seq: 1 + 2*r.Intn(127), Flags: r.Intn(8), Session: r.U32(), Length: uint32(ln)}
			c.judge(packetTarget, fmt.Sprintf("hdrlen-%s", relLen(ln, len(enc))), append(h.Encode(), enc...))
			if (k+int(ln))%2 == 0 {
				c.judge(streamTarget, fmt.Sprintf("hdrlen-%s", relLen(ln, len(enc))), append(h.Encode(), enc...))
			}
		}
	}
	// --- headers: every truncation, field corruption
	for k := 0; k < b.N(60, 1500); k++ {
		h := rfc8907.Header{Major: 0xc, Minor: r.Intn(2), Type: 1 + r.Intn(3), Seq: 1 + r.Intn(255), Flags: r.Intn(256), Session: r.U32(), Length: uint32(r.Intn(65537))}
		enc := h.Encode()
		for n := 0; n <= 12; n++ {
			c.judge(headerTarget, "truncated", enc[:n])
			c.judge(packetTarget, "truncated-header", enc[:n])
			if k%4 == 0 {
				c.judge(streamTarget, "truncated-header", enc[:n])
			}
		}
		m := append([]byte{}, enc...)
		m[r.Intn(12)] = r.Byte()
		c.judge(headerTarget, "corrupt", m)
		c.judge(packetTarget, "corrupt-header-nobody", m)
		c.judge(streamTarget, "corrupt-header-nobody", m)
		c.judge(headerTarget, "long", append(enc, r.Bytes(r.Intn(30))...))
	}
	// the anchor's own example: 12-byte header announcing 100 body bytes followed by 5
	ex := rfc8907.Header{Major: 0xc, Minor: 0, Type: 1, Seq: 1, Session: 0xdeadbeef, Length: 100}
	c.judge(packetTarget, "hdrlen-more", append(ex.Encode(), 1, 2, 3, 4, 5))
	c.judge(packetTarget, "hdrlen-more", ex.Encode())
	c.judge(streamTarget, "hdrlen-more", append(ex.Encode(), 1, 2, 3, 4, 5))
	c.judge(streamTarget, "hdrlen-more", ex.Encode())
	// --- random bytes to every decoder
	randomBodies(r, b.N(700, 14000), func(kind string, in []byte) {
		l := allLayouts[r.Intn(len(allLayouts))]
		c.judge(bodyTargets[l], kind, in)
		switch r.Intn(4) {
		case 0:
			c.judge(headerTarget, kind, in)
		case 1:
			c.judge(packetTarget, kind, in)
			if len(in) >= 12 {
				m := append([]byte{}, in...)
				m[0] = 0xc0 | m[0]&1
				m[1] = 1 + m[1]%3
				if m[2] == 0 {
					m[2] = 1
				}
				m[8], m[9] = 0, m[9]&1
				c.judge(packetTarget, "random-validhdr", m)
				c.judge(streamTarget, "random-validhdr", m)
			}
		default:
			c.judge(fields[r.Intn(len(fields))], kind, in)
		}
	})
	// --- big consistent inputs (allocation meter at scale)
	for k := 0; k < b.N(6, 60); k++ {
		layout := allLayouts[r.Intn(len(allLayouts))]
		v := randomValue(r, layout)
		tfs := textFields(layout)
		tf := tfs[r.Intn(len(tfs))]
		v.Texts[tf.Name] = fillText(r, layout, tf.Name, tf.Max-r.Intn(3), v.Ints["authen_type"], false)
		enc, err := v.Encode()
		if err != nil {
			continue
		}
		c.judge(bodyTargets[layout], "big-valid", enc)
		c.judge(fields[typeOf[layout]-1], "big-valid", enc)
		if len(enc) > 20 {
			c.judge(bodyTargets[layout], "big-truncated", enc[:len(enc)-1-r.Intn(10)])
		}
	}
	b.Sample("anchor-example", map[string]interface{}{"decoder": "packet", "input": hexs(append(ex.Encode(), 1, 2, 3, 4, 5)), "note": "12-byte header announcing 100 body bytes followed by 5"})
}

func relLen(ln int64, have int) string {
	switch {
	case ln == int64(have):
		return "exact"
	case ln < int64(have):
		return "less"
	case ln > 65536:
		return "over-cap"
	}
	return "more"
}
