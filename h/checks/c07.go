package checks

import (
	"fmt"
	"strings"
	"time"

	tq "github.com/facebookincubator/tacquito"
	"github.com/facebookincubator/tacquito/cmds/server/config"
	"github.com/facebookincubator/tacquito/cmds/server/config/authenticators/bcrypt"
	"github.com/facebookincubator/tacquito/cmds/server/config/authorizers/stringy"
	"verif/h/gen"
	"verif/h/kit"
	"verif/h/mon"
	"verif/h/refsrv"
	"verif/h/rfc8907"
	"verif/h/simnet"
	"verif/h/tap"
)

// C07 — one request, one reply; rejected requests get no handler and a closed
// connection (counting monitor on the reference server).

func init() {
	mon.Register(&mon.Check{
		ID:        "C07",
		Batches:   func(tier string) int { return 16 },
		Run:       runC07,
		Technique: "counting runtime monitor in lock-step: packets written between two consecutive blocking reads of a scripted connection and handler entries at a wrapping Handler are counted for every request of generated sessions against the reference server; a header/sequence/key-mismatch model says which requests are accepted",
		Rule: "a case is one connection: 1-4 multiplexed sessions drawn from recipes (ASCII with/without user in START, abort at each step, PAP minor 0/1, other START combinations, command and session authorization, accounting with every flag octet, CONTINUE to a fresh session, START mid-exchange, bodies of another type, garbage in the clear / under the key, maximum-size fields, sessions walked to 255) over users of 9 kinds (hash, group-inherited, no authenticator, bad hex, keychain, failing keychain, unregistered types, override, odd name), optionally ended by a rogue packet (even/replayed number, bad version/type, seq 0, oversize header); component pass: stringy authorizer with a request naming another user, bcrypt with failing keychain. " +
			"A class is (request label, user kind, model verdict); distinct_nontrivial counts classes",
		Assumptions: []string{"which sessions are open is read from the wrapping Response (continuation registered or not), i.e. at the API boundary"},
		MinClasses:  func(tier string) int { return 120 },
	})
}

func userKind(sc *stdCfg, user string) string {
	if ui := sc.Users[user]; ui != nil {
		return ui.Cred + "/" + ui.Accounter
	}
	if user == "" {
		return "empty-user"
	}
	return "unknown-user"
}

func pathOf(label string) string {
	if i := strings.Index(label, "("); i > 0 {
		return label[:i]
	}
	return label
}

func runC07(b *mon.B) {
	r := gen.New(uint64(b.Seed), 0xC07, uint64(b.Index))
	caseNo := 0
	nCfg := b.N(2, 12)
	perCfg := b.NQ(120)
	for ci := 0; ci < nCfg; ci++ {
		sc := richConfig(r, 1+r.Intn(2))
		if ci%4 == 3 {
			// a SPAN scope whose span host is down: the request falls through to the START
			// handler, once
			sc.Cfg.Secrets[0] = refsrv.AsSpan(sc.Cfg.Secrets[0], refsrv.DeadSpanHost)
			b.Class("config/span-scope-dead-host")
		}
		ref, err := refsrv.Start(sc.Cfg, refsrv.Options{ViaYAML: ci%2 == 0, Keys: sc.Keys})
		if err != nil {
			b.Inconclusive("configuration %d did not load: %v", ci, err)
			continue
		}
		ref.Net.SetKeepLog(false)
		ref.Net.Watchdog = 20 * time.Second
		abandon := false
		for k := 0; k < perCfg && !abandon; k++ {
			caseNo++
			scope := sc.Scopes[r.Intn(len(sc.Scopes))]
			nSess := 1 + r.Intn(4)
			recs := make([]recipe, nSess)
			for i := range recs {
				recs[i] = pickRecipe(r, sc)
			}
			walk := k%40 == 7 // one session walked up to 255 by jumping
			rogue := ""
			if r.Chance(1, 4) {
				rogue = r.PickS("even", "replay", "bad-major", "bad-minor", "bad-type", "seq0", "oversize", "decrease", "after-255", "after-255", "replay-other-type", "replay-other-type",
					"pipelined-even", "pipelined-bad-type", "pipelined-bad-major", "pipelined-oversize")
			}
			order := interleave(r, recs)
			if !b.Want(caseNo) {
				continue
			}
			b.Eval(1)
			rc := newRefConn(ref, scope.Octet<<16|(k%60000+1), []byte(scope.Key))
			sids := make([]uint32, nSess)
			next := make([]int, nSess)
			pos := make([]int, nSess)
			for i := range sids {
				sids[i] = r.U32()
				next[i] = 1
				if walk && i == 0 {
					next[i] = 251
				}
			}
			dead := false
			play := func(label string, kind string, h rfc8907.Header, body []byte, wf bool) {
				res := rc.send(h, body, wf)
				if res.Err != nil {
					if frame := stuckServerFrame(); frame != "" {
						b.Violate(caseNo, "C07/server-stuck-processing-request/"+frame, fmt.Sprintf("%s [%s]: %v after the request was delivered the server neither went back to reading nor closed the connection; a server goroutine is parked on a lock in %s", label, res.Verdict, ref.Net.Watchdog, frame),
							map[string]interface{}{"request_header": hexs(h.Encode()), "verdict": res.Verdict})
					} else {
						b.Inconclusive("case %d: %v", caseNo, res.Err)
					}
					dead = true
					abandon = true // this instance is not used any further
					return
				}
				b.Count("requests", 1)
				b.Count("reply_packets", len(res.Replies))
				b.Class("%s|%s|%s", pathOf(label), kind, res.Verdict)
				if slug, msg := judgeC07(res, h); slug != "" {
					st := ""
					if len(res.Replies) > 0 {
						st = fmt.Sprintf("/status%d", res.Replies[0].status())
					}
					sig := fmt.Sprintf("C07/%s/%s/%s", slug, pathOf(label), kind)
					var msgs []string
					for _, rp := range res.Replies {
						msgs = append(msgs, fmt.Sprintf("status=%d msg=%q", rp.status(), rp.msg()))
					}
					b.Violate(caseNo, sig, fmt.Sprintf("%s [%s, user kind %s]: %s", label, res.Verdict, kind, msg),
						map[string]interface{}{"request_header": hexs(h.Encode()), "request_body": hexs(body), "replies": msgs, "first_status": st, "via_yaml": ci%2 == 0})
				}
				if res.State.Closed {
					dead = true
				}
			}
			for _, si := range order {
				if dead {
					break
				}
				p := recs[si].Pkts[pos[si]]
				pos[si]++
				seq := next[si]
				if p.SeqOverride != 0 {
					seq = p.SeqOverride
				}
				next[si] = seq + 2
				if seq > 255 {
					continue
				}
				h := rfc8907.Header{Major: 0xc, Minor: p.Minor, Type: p.Type, Seq: seq, Flags: p.Flags, Session: sids[si]}
				play(p.Label, userKind(sc, recs[si].User), h, p.Body, p.WellFormed)
			}
			if !dead && rogue != "" {
				h := rfc8907.Header{Major: 0xc, Minor: 0, Type: 1, Seq: 1, Session: r.U32()}
				body := bAuthenStart(1, 1, 1, 1, "alice", "p", "r", "")
				switch rogue {
				case "even":
					h.Seq = 2 * (1 + r.Intn(100))
				case "replay", "decrease":
					// needs an open session: start one, then repeat / go below its number
					h.Seq = 5
					play("authen/ascii/start", "rogue", h, body, true)
					if dead {
						break
					}
					if rogue == "replay" {
						h.Seq = r.Pick(5, 6)
					} else {
						h.Seq = r.Pick(1, 3)
					}
					body = bAuthenContinue(0, "pw", "")
				case "replay-other-type":
					// a session is open (login waiting at a prompt); its id comes back with a number
					// that was already used, in a packet of another type
					h.Seq = r.Pick(1, 3, 5)
					play("authen/ascii/start", "rogue", h, body, true)
					if dead {
						break
					}
					h.Seq = r.Pick(1, h.Seq)
					h.Type = r.Pick(2, 3)
					if h.Type == 2 {
						body = bAuthorRequest(6, 1, 1, 1, "alice", "p", "r", "service=shell", "cmd=show", "cmd-arg=version")
					} else {
						body = bAcctRequest(2, 6, 1, 1, 1, "alice", "p", "r", "task_id=9")
					}
				case "after-255":
					// walk a session to the top of the number space with a continuation pending, then try again
					h.Seq = 253
					play("authen/ascii/start", "rogue", h, bAuthenStart(1, 1, 1, 1, "", "p", "r", ""), true)
					if dead {
						break
					}
					h.Seq = 255
					play("authen/ascii/continue-user", "rogue", h, bAuthenContinue(0, "alice", ""), true)
					if dead {
						break
					}
					h.Seq = r.Pick(1, 3, 253, 255)
					body = bAuthenContinue(0, sc.Users["alice"].Password, "")
				case "pipelined-even", "pipelined-bad-type", "pipelined-bad-major", "pipelined-oversize":
					// a valid request and a rejected one arrive in the same segment: the valid one
					// still gets its reply before the connection is closed
					good := pktSpec{H: rfc8907.Header{Major: 0xc, Type: 2, Seq: 1, Session: r.U32()}, Clear: bAuthorRequest(6, 1, 1, 1, "alice", "p", "r", "service=shell", "cmd=show", "cmd-arg=version")}.wire(rc.key)
					bad := rfc8907.Header{Major: 0xc, Type: 1, Seq: 1, Session: r.U32()}
					badBody := bAuthenStart(1, 1, 1, 1, "alice", "p", "r", "")
					switch rogue {
					case "pipelined-even":
						bad.Seq = 2
					case "pipelined-bad-type":
						bad.Type = 7
					case "pipelined-bad-major":
						bad.Major = 0xd
					}
					var second []byte
					if rogue == "pipelined-oversize" {
						bad.Length = 1 << 20
						second = bad.Encode()
					} else {
						second = pktSpec{H: bad, Clear: badBody}.wire(rc.key)
					}
					before := ref.Tap.Count()
					rc.c.Feed(append(append([]byte{}, good...), second...))
					st, werr := rc.c.WaitQuiescent()
					raws, stray := rc.c.TakePackets()
					n := 0
					for _, iv := range ref.Tap.Since(before) {
						if iv.Conn == rc.c.ID {
							n++
						}
					}
					b.Class("rogue/%s", rogue)
					switch {
					case werr != nil:
						b.Inconclusive("pipelined case: %v", werr)
					case n != 1 || len(raws) != 1 || stray != 0 || !st.Closed:
						b.Violate(caseNo, "C07/pipelined-rejection/"+rogue, fmt.Sprintf("a valid request followed in the same segment by a rejected one (%s): %d handler entries, %d reply packets (+%d stray bytes), closed=%v; expected 1, 1, closed", rogue, n, len(raws), stray, st.Closed), nil)
					}
					dead = true
				case "bad-major":
					h.Major = r.Pick(0, 0xb, 0xd, 0xf)
				case "bad-minor":
					h.Minor = r.Pick(2, 7, 15)
				case "bad-type":
					h.Type = r.Pick(0, 4, 9, 255)
				case "seq0":
					h.Seq = 0
				}
				if !dead {
					if rogue == "oversize" {
						// header only: announces more than 64 KiB
						h.Length = uint32(r.Pick(65537, 1<<20, 1<<31))
						before := ref.Tap.Count()
						rc.c.Feed(h.Encode())
						st, _ := rc.c.WaitQuiescent()
						raws, stray := rc.c.TakePackets()
						res := stepResult{Replies: decodeReplies(rc.key, raws), Stray: stray, State: st, Verdict: "reject:oversize"}
						for _, iv := range ref.Tap.Since(before) {
							if iv.Conn == rc.c.ID {
								res.Invs = append(res.Invs, iv)
							}
						}
						b.Class("rogue/oversize|reject:oversize")
						if slug, msg := judgeC07(res, h); slug != "" {
							b.Violate(caseNo, "C07/"+slug+"/rogue-oversize", msg, nil)
						}
					} else {
						play("rogue/"+rogue, "rogue", h, body, true)
					}
				}
			}
			if !dead && rogue == "" && k%3 == 0 {
				// the id of a session that is over (nothing registered for it any more) comes back
				// with number 1: an acceptable request like any other
				for si := range sids {
					if _, open := rc.last[sids[si]]; !open && pos[si] > 0 {
						h := rfc8907.Header{Major: 0xc, Type: 2, Seq: 1, Session: sids[si]}
						play("author/session-id-reused", "reuse-after-"+recs[si].Kind, h, bAuthorRequest(6, 1, 1, 1, "alice", "p", "r", "service=shell", "cmd=show", "cmd-arg=version"), true)
						break
					}
				}
			}
			if !rc.c.Closed() {
				rc.c.EOF()
			}
			ref.Net.Forget(rc.c)
			ref.Sink.Take() // accounting records are not judged here; do not let them pile up
			if k%307 == 0 {
				var names []string
				for _, rc := range recs {
					names = append(names, rc.Name+"("+rc.User+")")
				}
				b.Sample("connection", map[string]interface{}{"sessions": names, "interleaving": order, "rogue": rogue})
			}
		}
		ref.Close()
	}
	c07Components(b, r, &caseNo)
}

// interleave returns a random merge of the recipes' packet indices.
func interleave(r *gen.R, recs []recipe) []int {
	var order []int
	left := make([]int, len(recs))
	total := 0
	for i, rc := range recs {
		left[i] = len(rc.Pkts)
		total += left[i]
	}
	for total > 0 {
		i := r.Intn(len(recs))
		if left[i] == 0 {
			continue
		}
		left[i]--
		total--
		order = append(order, i)
	}
	return order
}

// c07Components drives single handler packages directly (paths the full
// wiring cannot reach, or reaches only under special configurations).
func c07Components(b *mon.B, r *gen.R, caseNo *int) {
	lg := tap.NewLogger(false)
	// (a) stringy authorizer scoped to one user, request naming another
	user := config.User{Name: "alice", Scopes: []string{"s"}, Commands: []config.Command{permitAll()},
		Services: []config.Service{{Name: "shell", SetValues: []config.Value{{Name: "priv-lvl", Values: []string{"15"}}}}}}
	az, err := stringy.New(lg).New(user)
	if err != nil {
		b.Inconclusive("stringy.New: %v", err)
		return
	}
	// (b) bcrypt authenticator on the keychain path with a failing keychain
	keys := &refsrv.KeyStore{Hashes: map[string][]byte{}, Fail: map[string]bool{"frank": true}}
	az2, err2 := bcrypt.New(lg, keys).New("frank", map[string]string{})
	if err2 != nil {
		b.Inconclusive("bcrypt.New: %v", err2)
		return
	}
	type comp struct {
		name string
		h    tq.Handler
		typ  int
		body func() []byte
	}
	comps := []comp{
		{"stringy/request-names-another-user/command", az, 2, func() []byte { return bAuthorRequest(6, 1, 1, 1, "bob", "p", "r", "service=shell", "cmd=show") }},
		{"stringy/request-names-another-user/session", az, 2, func() []byte { return bAuthorRequest(6, 1, 1, 1, "mallory", "p", "r", "service=shell", "cmd=") }},
		{"stringy/request-names-another-user/no-service", az, 2, func() []byte { return bAuthorRequest(6, 1, 1, 1, "bob", "p", "r", "foo=bar") }},
		{"stringy/own-user/command", az, 2, func() []byte { return bAuthorRequest(6, 1, 1, 1, "alice", "p", "r", "service=shell", "cmd=show") }},
		{"stringy/undecodable", az, 2, func() []byte { return []byte{1, 2, 3} }},
		{"bcrypt/keychain-error/pap", az2, 1, func() []byte { return bAuthenStart(1, 1, 2, 1, "frank", "p", "r", "pw") }},
		{"bcrypt/keychain-error/continue", az2, 1, func() []byte { return bAuthenContinue(0, "pw", "") }},
		{"bcrypt/no-password", az2, 1, func() []byte { return []byte{9, 9, 9} }},
	}
	for _, cp := range comps {
		for rep := 0; rep < b.N(3, 40); rep++ {
			*caseNo++
			if !b.Want(*caseNo) {
				continue
			}
			b.Eval(1)
			n := simnet.New()
			n.SetKeepLog(false)
			tp := tap.New(n)
			secret := []byte("component")
			srv := kit.Start(n, tp, lg, &tap.Static{Secret: secret, Handler: tp.Wrap("component", cp.h)})
			c := srv.L.Dial(simnet.RemoteFor(rep + 1))
			fl := 0
			body := cp.body()
			if len(body) < 6 {
				fl = 1
			}
			h := rfc8907.Header{Major: 0xc, Minor: rep % 2, Type: cp.typ, Seq: 1 + 2*r.Intn(100), Flags: fl, Session: r.U32()}
			c.Feed(pktSpec{H: h, Clear: body}.wire(secret))
			st, err := c.WaitQuiescent()
			raws, stray := c.TakePackets()
			if err != nil {
				b.Inconclusive("component %s: %v", cp.name, err)
				srv.Stop()
				continue
			}
			b.Class("component|%s", cp.name)
			res := stepResult{Replies: decodeReplies(secret, raws), Stray: stray, State: st, Verdict: "accept", Invs: tp.Invocations()}
			if slug, msg := judgeC07(res, h); slug != "" {
				var msgs []string
				for _, rp := range res.Replies {
					msgs = append(msgs, fmt.Sprintf("status=%#x msg=%q", rp.status(), rp.msg()))
				}
				b.Violate(*caseNo, fmt.Sprintf("C07/%s/component/%s", slug, cp.name), fmt.Sprintf("%s: %s", cp.name, msg), map[string]interface{}{"replies": msgs})
			}
			srv.Stop()
		}
	}
}
