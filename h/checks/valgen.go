package checks

import (
	"verif/h/gen"
	"verif/h/rfc8907"
)

// textFields lists the text fields of a layout with their wire maximum,
// derived from the reference diagrams.
type textField struct {
	Name string
	Max  int
}

func textFields(layout string) []textField {
	var out []textField
	for _, e := range rfc8907.Layouts[layout] {
		switch e.Kind {
		case rfc8907.Len8:
			out = append(out, textField{e.Name, 255})
		case rfc8907.Len16:
			out = append(out, textField{e.Name, 65535})
		}
	}
	return out
}

// enumOf returns the RFC member list of an integer field.
func enumOf(layout, name string) []int {
	switch name {
	case "action":
		return rfc8907.Actions
	case "priv_lvl":
		return []int{0, 1, 2, 3, 4, 5, 6, 7, 8, 9, 10, 11, 12, 13, 14, 15}
	case "authen_type":
		if layout == rfc8907.AuthenStart {
			return rfc8907.AuthenTypes
		}
		return []int{0, 1, 2, 3, 4, 5, 6}
	case "authen_service":
		return rfc8907.Services
	case "authen_method":
		return rfc8907.Methods
	case "status":
		switch layout {
		case rfc8907.AuthenReply:
			return rfc8907.AuthenStatuses
		case rfc8907.AuthorReply:
			return rfc8907.AuthorStatuses
		case rfc8907.AcctReply:
			return rfc8907.AcctStatuses
		}
	case "flags":
		switch layout {
		case rfc8907.AcctRequest:
			return rfc8907.AcctFlags
		case rfc8907.AuthenReply, rfc8907.AuthenContinue:
			return []int{0, 1}
		}
	}
	return []int{0}
}

func intFields(layout string) []string {
	var out []string
	for _, e := range rfc8907.Layouts[layout] {
		if e.Kind == rfc8907.U8 {
			out = append(out, e.Name)
		}
	}
	return out
}

// binaryAllowed: fields that may carry arbitrary octets (the RFC's "data"
// fields of the authentication packets and the reply server_msg).
func binaryAllowed(layout, name string, authenType int) bool {
	switch layout {
	case rfc8907.AuthenStart:
		return name == "data" && authenType != 1
	case rfc8907.AuthenReply:
		return name == "data" || name == "server_msg"
	case rfc8907.AuthenContinue:
		return name == "data"
	}
	return false
}

// fillText produces n bytes for a field: ASCII, starting with a per-field
// marker so that swapped fields are visible, binary where the RFC allows it.
func fillText(r *gen.R, layout, name string, n int, authenType int, binary bool) []byte {
	if n == 0 {
		return nil
	}
	var b []byte
	if binary && binaryAllowed(layout, name, authenType) {
		b = r.Bytes(n)
	} else {
		b = r.ASCII(n)
	}
	b[0] = name[0] & 0x7f
	return b
}

// randomInts sets every integer field to a random RFC member.
func randomInts(r *gen.R, v *rfc8907.Value) {
	for _, f := range intFields(v.Layout) {
		e := enumOf(v.Layout, f)
		v.Ints[f] = e[r.Intn(len(e))]
	}
	if v.Layout == rfc8907.AcctRequest && r.Chance(1, 2) {
		// any flag octet without stop+watchdog together
		f := r.Intn(256)
		if f&0x04 != 0 && f&0x08 != 0 {
			f &^= 0x08
		}
		v.Ints["flags"] = f
	}
	if (v.Layout == rfc8907.AuthenReply || v.Layout == rfc8907.AuthenContinue) && r.Chance(1, 2) {
		v.Ints["flags"] = r.Intn(256)
	}
}

func argLenBounds(layout string) (int, int) {
	if layout == rfc8907.AcctRequest {
		return 0, 255
	}
	return 2, 255
}

// makeArg builds an argument of exactly n bytes (ASCII, attribute=value form
// when there is room).
func makeArg(r *gen.R, n int) []byte {
	b := r.Printable(n)
	if n >= 3 {
		b[0] = 'a'
		b[n/2] = '='
	}
	return b
}

var len8Edges = []int{0, 1, 2, 15, 16, 17, 127, 128, 254, 255}
var len16Edges = []int{0, 1, 2, 15, 16, 17, 127, 128, 254, 255, 256, 257, 4095, 65534, 65535}
var argCntEdges = []int{0, 1, 2, 3, 127, 254, 255}

func edgesFor(max int) []int {
	if max == 255 {
		return len8Edges
	}
	return len16Edges
}

// smallValue: random RFC-valid value with short texts.
func smallValue(r *gen.R, layout string) *rfc8907.Value {
	v := rfc8907.NewValue(layout)
	randomInts(r, v)
	at := v.Ints["authen_type"]
	for _, tf := range textFields(layout) {
		v.Texts[tf.Name] = fillText(r, layout, tf.Name, r.Intn(12), at, r.Chance(1, 3))
	}
	if rfc8907.HasArgs(layout) {
		lo, _ := argLenBounds(layout)
		for i, n := 0, r.Intn(4); i < n; i++ {
			v.Args = append(v.Args, makeArg(r, lo+r.Intn(12)))
		}
	}
	return v
}

// randomValue: random RFC-valid value with lengths over the whole width.
// remAddrSpellings: legal texts for rem_addr that are IP addresses in non-canonical (and
// canonical) spelling; the field is opaque text to the protocol.
var remAddrSpellings = []string{"192.0.2.7", "192.000.002.007", "2001:db8::1", "2001:0db8:0000:0000:0000:0000:0000:0001", "2001:db8:0:0:0:0:0:1", "2001:DB8::1",
	"::ffff:192.0.2.7", "0:0:0:0:0:ffff:c000:207", "::1", "0000:0000:0000:0000:0000:0000:0000:0001", "fe80::1%eth0", "[2001:db8::1]:49", "192.0.2.7:49", " 192.0.2.7", "010.001.001.001"}

func randomValue(r *gen.R, layout string) *rfc8907.Value {
	v := rfc8907.NewValue(layout)
	randomInts(r, v)
	at := v.Ints["authen_type"]
	for _, tf := range textFields(layout) {
		var n int
		switch r.Intn(4) {
		case 0:
			e := edgesFor(tf.Max)
			n = e[r.Intn(len(e))]
		case 1:
			n = r.Intn(tf.Max + 1)
		default:
			n = r.Intn(40)
		}
		v.Texts[tf.Name] = fillText(r, layout, tf.Name, n, at, r.Chance(1, 3))
		if tf.Name == "rem_addr" && r.Chance(1, 6) {
			// what devices really put there: address text, in whatever spelling they like
			v.Texts[tf.Name] = []byte(remAddrSpellings[r.Intn(len(remAddrSpellings))])
		}
	}
	if rfc8907.HasArgs(layout) {
		lo, hi := argLenBounds(layout)
		cnt := 0
		switch r.Intn(4) {
		case 0:
			cnt = argCntEdges[r.Intn(len(argCntEdges))]
		case 1:
			cnt = r.Intn(256)
		default:
			cnt = r.Intn(6)
		}
		for i := 0; i < cnt; i++ {
			var n int
			switch r.Intn(4) {
			case 0:
				n = r.Pick(lo, lo+1, 127, 254, 255)
			case 1:
				n = r.Range(lo, hi)
			default:
				n = r.Range(lo, lo+20)
			}
			v.Args = append(v.Args, makeArg(r, n))
		}
		if layout == rfc8907.AuthorRequest && len(v.Args) < 255 && r.Chance(1, 6) {
			// the line-ending argument devices append to a command, in its usual spellings
			v.Args = append(v.Args, []byte(r.PickS("cmd-arg=<cr>", "cmd-arg=<CR>", "cmd-arg*<cr>", "cmd-arg= <cr> ")))
		}
	}
	return v
}
