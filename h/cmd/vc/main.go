// Command vc runs the runtime monitors: `vc <ID> [--tier quick|thorough] [--seed N]`.
package main

import (
	_ "verif/h/checks"
	"verif/h/mon"
)

func main() { mon.Main() }
