// Package tap holds the wrappers put at tacquito's injection points: a
// monitoring Handler/Response pair, a logger that records everything it is
// asked to emit, and a static SecretProvider.
package tap

import (
	"context"
	"fmt"
	"net"
	"runtime/debug"
	"sync"
	"sync/atomic"

	tq "github.com/facebookincubator/tacquito"
	"verif/h/simnet"
)

// Inv is one handler invocation as observed at the wrapper.
type Inv struct {
	T         int64
	Conn      int
	Session   uint32
	Seq       int
	Type      int
	HandlerID string
	Body      []byte // cleartext the handler received
	Header    tq.Header
	Replies   int // Reply/ReplyWithContext/Write calls
	ReplyErrs int
	NextSet   bool
	NextID    string
	Panic     string
	Stack     string
	ExitT     int64
}

// Tap records handler activity of one server.
type Tap struct {
	Net *simnet.Net

	mu        sync.Mutex
	invs      []*Inv
	bodyBytes int
	base      int // number of invocations already dropped from invs (memory bound for long runs)
	seq       int

	// Recover: handler panics are recovered and recorded (C14) instead of
	// killing the process.
	Recover bool
	// Gate, if set, is called at handler entry (may block: C17).
	Gate func(inv *Inv)
	// ExtraWriters: every request gets this many recording writers registered on its Response
	// (Response.RegisterWriter is public API; the reference server's span handler uses it). Set
	// before the server starts.
	ExtraWriters int
	writerCalls  int64
	// KeepBodies copies request bodies into the record.
	KeepBodies bool
}

// New creates a tap bound to a simulated world (may be nil for real TCP).
func New(n *simnet.Net) *Tap { return &Tap{Net: n, KeepBodies: true} }

// SetKeepBodies switches copying of request bodies (safe while serving).
func (t *Tap) SetKeepBodies(v bool) {
	t.mu.Lock()
	t.KeepBodies = v
	t.mu.Unlock()
}

// Invocations returns a snapshot.
func (t *Tap) Invocations() []*Inv {
	t.mu.Lock()
	defer t.mu.Unlock()
	out := make([]*Inv, len(t.invs))
	for i, v := range t.invs {
		c := *v
		out[i] = &c
	}
	return out
}

// Count returns the number of invocations so far.
func (t *Tap) Count() int {
	t.mu.Lock()
	defer t.mu.Unlock()
	return t.base + len(t.invs)
}

// maxKept bounds the invocation log: indices stay monotonic (Count/Since), old
// entries are dropped.
const maxKept = 20000

// maxBodyBytes bounds the request bodies retained with the log in the same way.
const maxBodyBytes = 32 << 20

// Release drops everything recorded (a server that was stopped; indices stay monotonic).
func (t *Tap) Release() {
	t.mu.Lock()
	t.base += len(t.invs)
	t.invs = nil
	t.bodyBytes = 0
	t.mu.Unlock()
}

// CountConn returns the number of invocations on one connection.
func (t *Tap) CountConn(conn int) int {
	t.mu.Lock()
	defer t.mu.Unlock()
	n := 0
	for _, v := range t.invs {
		if v.Conn == conn {
			n++
		}
	}
	return n
}

// Since returns invocations with index >= from.
func (t *Tap) Since(from int) []*Inv {
	t.mu.Lock()
	defer t.mu.Unlock()
	var out []*Inv
	from -= t.base
	if from < 0 {
		from = 0
	}
	if from > len(t.invs) {
		from = len(t.invs)
	}
	for _, v := range t.invs[from:] {
		c := *v
		out = append(out, &c)
	}
	return out
}

// Wrap returns a Handler that records and forwards to h.
func (t *Tap) Wrap(id string, h tq.Handler) tq.Handler {
	if h == nil {
		return nil
	}
	return &monHandler{tap: t, id: id, inner: h}
}

type monHandler struct {
	tap   *Tap
	id    string
	inner tq.Handler
}

func connOf(req tq.Request) int {
	if req.Context == nil {
		return -1
	}
	if s, ok := req.Context.Value(tq.ContextConnLocalAddr).(string); ok {
		return simnet.ConnIDFromLocal(s)
	}
	return -1
}

func (m *monHandler) Handle(resp tq.Response, req tq.Request) {
	t := m.tap
	inv := &Inv{Conn: connOf(req), Session: uint32(req.Header.SessionID), Seq: int(req.Header.SeqNo), Type: int(req.Header.Type),
		HandlerID: m.id, Header: req.Header}
	t.mu.Lock()
	keep, recov, gate := t.KeepBodies, t.Recover, t.Gate
	t.mu.Unlock()
	if keep {
		inv.Body = append([]byte{}, req.Body...)
	}
	if t.Net != nil {
		inv.T = t.Net.Log(inv.Conn, simnet.KHandlerEnter, int(req.Header.SeqNo), m.id)
	}
	t.mu.Lock()
	t.invs = append(t.invs, inv)
	t.bodyBytes += len(inv.Body)
	if len(t.invs) > maxKept || (t.bodyBytes > maxBodyBytes && len(t.invs) > 64) {
		drop := len(t.invs) / 2
		for _, old := range t.invs[:drop] {
			t.bodyBytes -= len(old.Body)
		}
		t.invs = append([]*Inv{}, t.invs[drop:]...)
		t.base += drop
	}
	t.mu.Unlock()
	defer func() {
		if recov {
			if p := recover(); p != nil {
				t.mu.Lock()
				inv.Panic = fmt.Sprint(p)
				inv.Stack = string(debug.Stack())
				t.mu.Unlock()
			}
		}
		if t.Net != nil {
			et := t.Net.Log(inv.Conn, simnet.KHandlerExit, int(req.Header.SeqNo), m.id)
			t.mu.Lock()
			inv.ExitT = et
			t.mu.Unlock()
		}
	}()
	if gate != nil {
		gate(inv)
	}
	for i := 0; i < t.ExtraWriters; i++ {
		resp.RegisterWriter(&recWriter{tap: t})
	}
	m.inner.Handle(&monResponse{Response: resp, tap: t, inv: inv, parent: m.id}, req)
}

// recWriter is a registered response writer that counts what it is handed.
type recWriter struct {
	tap   *Tap
	calls int
	last  []byte
}

func (w *recWriter) Write(ctx context.Context, p []byte) (int, error) {
	w.calls++
	w.last = append(w.last[:0], p...)
	atomic.AddInt64(&w.tap.writerCalls, 1)
	return len(p), nil
}

// WriterCalls is the total number of writes the extra writers have received.
func (t *Tap) WriterCalls() int64 { return atomic.LoadInt64(&t.writerCalls) }

type monResponse struct {
	tq.Response
	tap    *Tap
	inv    *Inv
	parent string
}

func (r *monResponse) note(err error) {
	r.tap.mu.Lock()
	r.inv.Replies++
	if err != nil {
		r.inv.ReplyErrs++
	}
	r.tap.mu.Unlock()
}

func (r *monResponse) Reply(v tq.EncoderDecoder) (int, error) {
	n, err := r.Response.Reply(v)
	r.note(err)
	return n, err
}

func (r *monResponse) ReplyWithContext(ctx context.Context, v tq.EncoderDecoder, w ...tq.Writer) (int, error) {
	n, err := r.Response.ReplyWithContext(ctx, v, w...)
	r.note(err)
	return n, err
}

func (r *monResponse) Write(p *tq.Packet) (int, error) {
	n, err := r.Response.Write(p)
	r.note(err)
	return n, err
}

func (r *monResponse) Next(next tq.Handler) {
	r.tap.mu.Lock()
	r.tap.seq++
	id := fmt.Sprintf("cont#%d(sess=%d,after-seq=%d)", r.tap.seq, r.inv.Session, r.inv.Seq)
	if n, ok := next.(*Named); ok {
		id = n.ID
	}
	r.inv.NextSet = next != nil
	r.inv.NextID = id
	r.tap.mu.Unlock()
	if next == nil {
		r.Response.Next(nil)
		return
	}
	r.Response.Next(r.tap.Wrap(id, next))
}

// Named lets a scripted handler carry its own identity through Next.
type Named struct {
	ID string
	H  tq.Handler
}

// Handle forwards.
func (n *Named) Handle(resp tq.Response, req tq.Request) { n.H.Handle(resp, req) }

// Static is a SecretProvider returning one secret and handler for every peer.
type Static struct {
	Secret  []byte
	Handler tq.Handler
	Err     error
}

// Get implements tq.SecretProvider.
func (s *Static) Get(ctx context.Context, remote net.Addr) ([]byte, tq.Handler, error) {
	return s.Secret, s.Handler, s.Err
}
