package tap

import (
	"context"
	"fmt"
	"sort"
	"strings"
	"sync"

	tq "github.com/facebookincubator/tacquito"
)

// LogEntry is one thing the server asked its logger to emit or retain.
type LogEntry struct {
	Level string // error|info|debug|record|set|fatal
	Text  string // what would be emitted / retained
}

// Logger satisfies every loggerProvider interface of the repository (server,
// handlers, loader, bcrypt, stringy, prefix, local accounter) and records:
// rendered messages, Record maps minus the keys the call lists as obscured,
// and the values selected by key in Set (context retention) calls.
type Logger struct {
	mu      sync.Mutex
	entries []LogEntry
	Keep    bool
	count   int
	// OnMessage is called (outside the lock) with every rendered message; C15
	// uses it to widen the window between the loader's two assignments.
	OnMessage func(level, text string)
	// Retain: Set stores the selected fields in the context, as the
	// commented-out reference implementation in cmds/server/log does.
	Retain bool
	// Forward, if set, also receives every call (the stock log.Logger).
	Forward FullLogger
}

// FullLogger is the union of the logger interfaces.
type FullLogger interface {
	Infof(ctx context.Context, format string, args ...interface{})
	Errorf(ctx context.Context, format string, args ...interface{})
	Debugf(ctx context.Context, format string, args ...interface{})
	Record(ctx context.Context, r map[string]string, obscure ...string)
	Set(ctx context.Context, fields map[string]string, keys ...tq.ContextKey) context.Context
}

// Release drops the retained entries.
func (l *Logger) Release() {
	l.mu.Lock()
	l.entries = nil
	l.mu.Unlock()
}

// NewLogger creates a recording logger.
func NewLogger(keep bool) *Logger { return &Logger{Keep: keep, Retain: true} }

func (l *Logger) add(level, text string) {
	l.mu.Lock()
	l.count++
	if l.Keep {
		l.entries = append(l.entries, LogEntry{level, text})
	}
	cb := l.OnMessage
	l.mu.Unlock()
	if cb != nil {
		cb(level, text)
	}
}

func (l *Logger) Infof(ctx context.Context, format string, args ...interface{}) {
	l.add("info", fmt.Sprintf(format, args...))
	if l.Forward != nil {
		l.Forward.Infof(ctx, format, args...)
	}
}

func (l *Logger) Errorf(ctx context.Context, format string, args ...interface{}) {
	l.add("error", fmt.Sprintf(format, args...))
	if l.Forward != nil {
		l.Forward.Errorf(ctx, format, args...)
	}
}

func (l *Logger) Debugf(ctx context.Context, format string, args ...interface{}) {
	l.add("debug", fmt.Sprintf(format, args...))
	if l.Forward != nil {
		l.Forward.Debugf(ctx, format, args...)
	}
}

func (l *Logger) Fatalf(ctx context.Context, format string, args ...interface{}) {
	l.add("fatal", fmt.Sprintf(format, args...))
}

// Record keeps the map minus the obscured keys.
func (l *Logger) Record(ctx context.Context, r map[string]string, obscure ...string) {
	hide := map[string]bool{}
	for _, k := range obscure {
		hide[k] = true
	}
	keys := make([]string, 0, len(r))
	for k := range r {
		keys = append(keys, k)
	}
	sort.Strings(keys)
	var sb strings.Builder
	for _, k := range keys {
		if hide[k] {
			fmt.Fprintf(&sb, "%s=<obscured by caller> ", k)
			continue
		}
		fmt.Fprintf(&sb, "%s=%s ", k, r[k])
	}
	l.add("record", sb.String())
	if l.Forward != nil {
		cp := make(map[string]string, len(r))
		for k, v := range r {
			cp[k] = v
		}
		l.Forward.Record(ctx, cp, obscure...)
	}
}

// Set records the values selected for retention and (optionally) retains them.
func (l *Logger) Set(ctx context.Context, fields map[string]string, keys ...tq.ContextKey) context.Context {
	var sb strings.Builder
	for _, k := range keys {
		v, ok := fields[string(k)]
		if !ok {
			continue
		}
		fmt.Fprintf(&sb, "%s=%s ", k, v)
		if l.Retain && ctx != nil {
			ctx = context.WithValue(ctx, k, v)
		}
	}
	if sb.Len() > 0 {
		l.add("set", sb.String())
	}
	return ctx
}

// Entries returns a snapshot of what was recorded.
func (l *Logger) Entries() []LogEntry {
	l.mu.Lock()
	defer l.mu.Unlock()
	return append([]LogEntry{}, l.entries...)
}

// Reset drops recorded entries and returns them.
func (l *Logger) Reset() []LogEntry {
	l.mu.Lock()
	defer l.mu.Unlock()
	e := l.entries
	l.entries = nil
	return e
}

// Count returns the number of logger calls seen.
func (l *Logger) Count() int {
	l.mu.Lock()
	defer l.mu.Unlock()
	return l.count
}
