// Package kit starts tacquito's real Server over a simulated network.
package kit

import (
	"context"
	"errors"
	"time"

	tq "github.com/facebookincubator/tacquito"
	"verif/h/simnet"
	"verif/h/tap"
)

// Srv is one running tq.Server over simnet.
type Srv struct {
	Net    *simnet.Net
	L      *simnet.Listener
	Tap    *tap.Tap
	Log    *tap.Logger
	Server *tq.Server
	cancel context.CancelFunc
	Ctx    context.Context
	done   chan error
}

// Start runs Serve on a fresh listener with the given provider.
func Start(n *simnet.Net, tp *tap.Tap, lg *tap.Logger, sp tq.SecretProvider, opts ...tq.Option) *Srv {
	ctx, cancel := context.WithCancel(context.Background())
	return StartCtx(ctx, cancel, n, tp, lg, sp, opts...)
}

// StartCtx is Start with a context given by the caller (a server wired like cmds/server/main.go
// shares one context between the loader and Serve).
func StartCtx(ctx context.Context, cancel context.CancelFunc, n *simnet.Net, tp *tap.Tap, lg *tap.Logger, sp tq.SecretProvider, opts ...tq.Option) *Srv {
	s := &Srv{Net: n, L: n.Listen(), Tap: tp, Log: lg, cancel: cancel, Ctx: ctx, done: make(chan error, 1)}
	s.Server = tq.NewServer(lg, sp, opts...)
	go func() {
		err := s.Server.Serve(ctx, s.L)
		n.Log(0, simnet.KServeReturn, 0, "")
		s.done <- err
	}()
	return s
}

// StartLib starts a library-level server: one secret, one (tapped) handler.
func StartLib(secret []byte, h tq.Handler) *Srv {
	n := simnet.New()
	tp := tap.New(n)
	lg := tap.NewLogger(false)
	return Start(n, tp, lg, &tap.Static{Secret: secret, Handler: tp.Wrap("initial", h)})
}

// ErrWatchdog: Serve did not return within the wall-clock watchdog.
var ErrWatchdog = errors.New("kit: Serve did not return before the watchdog")

// Cancel cancels the serve context (logged).
func (s *Srv) Cancel() {
	s.Net.Log(0, simnet.KCancel, 0, "")
	s.cancel()
}

// Stop cancels, lets the accept deadline pass and waits for Serve to return.
func (s *Srv) Stop() error {
	s.Cancel()
	s.Net.StallAll()
	return s.WaitServe()
}

// WaitServe ticks the listener and waits for Serve to return.
func (s *Srv) WaitServe() error {
	deadline := time.After(s.Net.Watchdog)
	for {
		s.L.Tick()
		select {
		case <-s.done:
			s.done <- nil
			return nil
		case <-deadline:
			return ErrWatchdog
		case <-time.After(200 * time.Microsecond):
		}
	}
}

// Served reports whether Serve has returned.
func (s *Srv) Served() bool {
	select {
	case <-s.done:
		s.done <- nil
		return true
	default:
		return false
	}
}
