// Package simnet is an in-memory network for driving tacquito's real server
// and client code: a DeadlineListener and scripted net.Conn values whose every
// server-side call is appended to one totally ordered event log, with a
// virtual clock so that no verdict depends on wall time.
package simnet

import (
	"errors"
	"fmt"
	"io"
	"net"
	"os"
	"sync"
	"sync/atomic"
	"time"

	"verif/h/rfc8907"
)

// Event is one observed call.
type Event struct {
	T    int64  // global logical timestamp
	Conn int    // connection id (0 = listener / server level)
	Kind string // see the K* constants
	N    int    // byte count where meaningful
	Note string
}

// Event kinds.
const (
	KAccept       = "accept"
	KRemoteAddr   = "remote-addr"
	KSetReadDL    = "set-read-deadline"
	KSetDL        = "set-deadline"
	KReadEnter    = "read-enter"
	KReadReturn   = "read-return"
	KReadTimeout  = "read-timeout"
	KReadEOF      = "read-eof"
	KReadNoDL     = "read-without-deadline"
	KWrite        = "write"
	KClose        = "close"
	KHandlerEnter = "handler-enter"
	KHandlerExit  = "handler-exit"
	KServeReturn  = "serve-returned"
	KCancel       = "cancel"
	KLAcceptEnter = "l-accept-enter"
	KLSetDeadline = "l-set-deadline"
	KLClose       = "l-close"
	KLTimeout     = "l-accept-timeout"
	KUseAfterStop = "call-after-close"
)

// Net is one simulated world: an event log and a connection id space.
type Net struct {
	mu     sync.Mutex
	events []Event
	clock  int64
	nextID int
	conns  map[int]*Conn
	// Watchdog bounds every blocking wait of the test side (wall clock; its
	// expiry is reported as inconclusive by the callers, never as a verdict).
	Watchdog time.Duration
	// keepLog=false drops events (only counters kept) for bulk workloads.
	keepLog bool
	counts  map[string]int
	// hung is set once a wait hit the watchdog: the server under test is stuck, and
	// every later wait fails at once instead of spending the watchdog again
	hung int32
	// listenerClosed: the server closed its listener; a connection that was offered but
	// never accepted will never be served
	listenerClosed int32
}

// New creates a world.
func New() *Net {
	return &Net{conns: map[int]*Conn{}, Watchdog: 60 * time.Second, keepLog: true, counts: map[string]int{}}
}

// SetKeepLog switches event retention on or off (counters are always kept).
func (n *Net) SetKeepLog(v bool) {
	n.mu.Lock()
	n.keepLog = v
	n.mu.Unlock()
}

// Log appends an event and returns its timestamp.
func (n *Net) Log(conn int, kind string, num int, note string) int64 {
	n.mu.Lock()
	n.clock++
	t := n.clock
	n.counts[kind]++
	if n.keepLog {
		n.events = append(n.events, Event{T: t, Conn: conn, Kind: kind, N: num, Note: note})
	}
	n.mu.Unlock()
	return t
}

// Release drops the event log and the connection table of a world that is no longer used.
func (n *Net) Release() {
	n.mu.Lock()
	n.events = nil
	n.keepLog = false
	n.conns = map[int]*Conn{}
	n.mu.Unlock()
}

// Events returns a copy of the log.
func (n *Net) Events() []Event {
	n.mu.Lock()
	defer n.mu.Unlock()
	return append([]Event{}, n.events...)
}

// EventsSince returns the events with T > t.
func (n *Net) EventsSince(t int64) []Event {
	n.mu.Lock()
	defer n.mu.Unlock()
	var out []Event
	for i := len(n.events) - 1; i >= 0; i-- {
		if n.events[i].T <= t {
			break
		}
		out = append(out, n.events[i])
	}
	for i, j := 0, len(out)-1; i < j; i, j = i+1, j-1 {
		out[i], out[j] = out[j], out[i]
	}
	return out
}

// Now returns the current logical time.
func (n *Net) Now() int64 {
	n.mu.Lock()
	defer n.mu.Unlock()
	return n.clock
}

// Count returns how many events of a kind were logged.
func (n *Net) Count(kind string) int {
	n.mu.Lock()
	defer n.mu.Unlock()
	return n.counts[kind]
}

// ConnByID finds a connection.
func (n *Net) ConnByID(id int) *Conn {
	n.mu.Lock()
	defer n.mu.Unlock()
	return n.conns[id]
}

// StallAll makes every connection's peer silent so that blocked reads reach
// their deadline (used when shutting a server down).
func (n *Net) StallAll() {
	n.mu.Lock()
	cs := make([]*Conn, 0, len(n.conns))
	for _, c := range n.conns {
		cs = append(cs, c)
	}
	n.mu.Unlock()
	for _, c := range cs {
		c.Stall()
	}
}

// Forget drops a closed connection from the world's table (bulk workloads).
func (n *Net) Forget(c *Conn) {
	n.mu.Lock()
	delete(n.conns, c.ID)
	n.mu.Unlock()
}

// LocalAddrFor is the unique local address given to connection id; handlers
// see it in their context, which is how handler events are tied to connections.
func LocalAddrFor(id int) *net.TCPAddr {
	ip := net.IP{0xfd, 0, 0, 0, 0, 0, 0, 0, 0, 0, 0, 0, byte(id >> 24), byte(id >> 16), byte(id >> 8), byte(id)}
	return &net.TCPAddr{IP: ip, Port: 49}
}

// ConnIDFromLocal inverts LocalAddrFor on the "host:port" string.
func ConnIDFromLocal(s string) int {
	host, _, err := net.SplitHostPort(s)
	if err != nil {
		return -1
	}
	ip := net.ParseIP(host).To16()
	if ip == nil || ip[0] != 0xfd {
		return -1
	}
	return int(ip[12])<<24 | int(ip[13])<<16 | int(ip[14])<<8 | int(ip[15])
}

type timeoutErr struct{}

func (timeoutErr) Error() string   { return "i/o timeout (simnet virtual deadline)" }
func (timeoutErr) Timeout() bool   { return true }
func (timeoutErr) Temporary() bool { return true }
func (timeoutErr) Is(target error) bool {
	return target == os.ErrDeadlineExceeded
}

type chunk struct {
	data  []byte
	delay time.Duration // virtual time the peer lets pass before sending it
}

// Conn is the server's end of a scripted connection (it implements net.Conn);
// the exported non-net.Conn methods are the test's end.
type Conn struct {
	net    *Net
	ID     int
	remote net.Addr
	local  net.Addr

	mu   sync.Mutex
	cond *sync.Cond

	inq         []chunk
	eof         bool
	stalled     bool
	closed      bool
	blocked     bool // server is parked in Read with nothing to deliver
	eofWithData bool // the Read delivering the last bytes also returns io.EOF
	// reads answered with a timeout / EOF since the peer fell silent / hung up: a server that
	// keeps reading after several of them is "open and still reading" for WaitQuiescent
	stallTimeouts, eofReads int
	accepted                bool

	out       []byte
	outTaken  int
	writes    int
	lastWrite int64

	vnow      time.Duration
	vdeadline time.Duration
	armed     bool
	everArmed bool

	readHist        [6]int // sizes returned by Read: 1, 2-11, 12, 13-106, 107, >=108
	readsNoDeadline int
	timeouts        int
	closeCalls      int
	closeT          int64

	// hooks (set before the connection is handed to the server)
	RemoteAddrDelay time.Duration // real sleep inside the first RemoteAddr()
	WriteDelay      time.Duration // real sleep inside Write
	WriteErr        error         // Write fails with this error
	writeErrQueue   []error       // errors for the next Write calls (nil entry = succeed)
	OnWrite         func(c *Conn, p []byte)
}

// NewConn creates a connection that is not yet offered to any listener (used
// to drive tq.Client over a scripted peer).
func (n *Net) NewConn(remote net.Addr) *Conn {
	n.mu.Lock()
	n.nextID++
	id := n.nextID
	n.mu.Unlock()
	c := &Conn{net: n, ID: id, remote: remote, local: LocalAddrFor(id)}
	c.cond = sync.NewCond(&c.mu)
	n.mu.Lock()
	n.conns[id] = c
	n.mu.Unlock()
	return c
}

// ---- net.Conn (called by the code under test) ----

func (c *Conn) Read(p []byte) (int, error) {
	c.mu.Lock()
	defer c.mu.Unlock()
	if c.closed {
		c.net.Log(c.ID, KUseAfterStop, 0, "Read after Close")
		return 0, net.ErrClosed
	}
	c.net.Log(c.ID, KReadEnter, len(p), "")
	if !c.armed {
		c.readsNoDeadline++
		c.net.Log(c.ID, KReadNoDL, 0, "")
	}
	for {
		if c.closed {
			return 0, net.ErrClosed
		}
		if len(c.inq) > 0 {
			ch := &c.inq[0]
			if ch.delay > 0 {
				c.vnow += ch.delay
				ch.delay = 0
			}
			if c.armed && c.vnow > c.vdeadline {
				c.timeouts++
				c.net.Log(c.ID, KReadTimeout, 0, "peer slower than the armed deadline")
				return 0, timeoutErr{}
			}
			n := copy(p, ch.data)
			if n == len(ch.data) {
				c.inq = c.inq[1:]
			} else {
				ch.data = ch.data[n:]
			}
			c.blocked = false
			c.readHist[sizeBucket(n)]++
			c.net.Log(c.ID, KReadReturn, n, "")
			if len(c.inq) == 0 && c.eof && c.eofWithData {
				// the transport hands over the last bytes together with the end of the stream
				// (io.Reader allows n > 0 with io.EOF; TLS connections do it)
				c.net.Log(c.ID, KReadEOF, n, "with the last bytes")
				return n, io.EOF
			}
			return n, nil
		}
		if c.eof {
			c.eofReads++
			c.cond.Broadcast()
			c.net.Log(c.ID, KReadEOF, 0, "")
			return 0, io.EOF
		}
		if c.stalled {
			// the peer is silent for ever: time jumps to the armed deadline
			c.stallTimeouts++
			c.cond.Broadcast()
			if c.stallTimeouts > 500 {
				// a server that never gives up would spin here for ever: park it like a socket
				// without a deadline would
				for !c.closed {
					c.cond.Wait()
				}
				return 0, net.ErrClosed
			}
			c.timeouts++
			if c.armed {
				if c.vdeadline > c.vnow {
					c.vnow = c.vdeadline
				}
				c.net.Log(c.ID, KReadTimeout, 0, "peer silent")
			} else {
				c.net.Log(c.ID, KReadTimeout, 0, "peer silent; NO deadline armed (a real socket would block for ever)")
			}
			return 0, timeoutErr{}
		}
		c.blocked = true
		c.cond.Broadcast()
		c.cond.Wait()
	}
}

func (c *Conn) Write(p []byte) (int, error) {
	if c.WriteDelay > 0 {
		time.Sleep(c.WriteDelay)
	}
	c.mu.Lock()
	defer c.mu.Unlock()
	if c.closed {
		c.net.Log(c.ID, KUseAfterStop, len(p), "Write after Close")
		return 0, net.ErrClosed
	}
	if len(c.writeErrQueue) > 0 {
		e := c.writeErrQueue[0]
		c.writeErrQueue = c.writeErrQueue[1:]
		if e != nil {
			c.net.Log(c.ID, KWrite, 0, "injected write error (queued)")
			return 0, e
		}
	}
	if c.WriteErr != nil {
		c.net.Log(c.ID, KWrite, 0, "injected write error")
		return 0, c.WriteErr
	}
	c.out = append(c.out, p...)
	c.writes++
	c.lastWrite = c.net.Log(c.ID, KWrite, len(p), "")
	if c.OnWrite != nil {
		c.OnWrite(c, p)
	}
	c.cond.Broadcast()
	return len(p), nil
}

// Close is the server closing the connection.
func (c *Conn) Close() error {
	c.mu.Lock()
	defer c.mu.Unlock()
	c.closeCalls++
	if c.closed {
		c.net.Log(c.ID, KClose, 0, "second close")
		return net.ErrClosed
	}
	c.closed = true
	c.blocked = false
	c.closeT = c.net.Log(c.ID, KClose, 0, "")
	c.cond.Broadcast()
	// a closed connection needs no release at shutdown: drop it from the world's table so
	// that long runs do not accumulate every connection ever made
	c.net.mu.Lock()
	delete(c.net.conns, c.ID)
	c.net.mu.Unlock()
	return nil
}

func (c *Conn) LocalAddr() net.Addr { return c.local }

func (c *Conn) RemoteAddr() net.Addr {
	c.mu.Lock()
	first := !c.everArmed && c.writes == 0
	d := c.RemoteAddrDelay
	c.RemoteAddrDelay = 0
	c.mu.Unlock()
	if first && d > 0 {
		time.Sleep(d)
	}
	c.net.Log(c.ID, KRemoteAddr, 0, "")
	return c.remote
}

func (c *Conn) setDL(kind string, t time.Time) {
	c.mu.Lock()
	defer c.mu.Unlock()
	if c.closed {
		c.net.Log(c.ID, KUseAfterStop, 0, kind+" after Close")
		return
	}
	if t.IsZero() {
		c.armed = false
		c.net.Log(c.ID, kind, 0, "zero (disarmed)")
		return
	}
	d := time.Until(t)
	c.armed = true
	c.everArmed = true
	c.vdeadline = c.vnow + d
	c.net.Log(c.ID, kind, int(d/time.Millisecond), "")
}

func (c *Conn) SetDeadline(t time.Time) error      { c.setDL(KSetDL, t); return nil }
func (c *Conn) SetReadDeadline(t time.Time) error  { c.setDL(KSetReadDL, t); return nil }
func (c *Conn) SetWriteDeadline(t time.Time) error { return nil }

// ---- test side ----

// Feed queues chunks for the server to read; each Read returns at most one.
func (c *Conn) Feed(chunks ...[]byte) {
	c.mu.Lock()
	for _, ch := range chunks {
		if len(ch) > 0 {
			c.inq = append(c.inq, chunk{data: append([]byte{}, ch...)})
		}
	}
	c.blocked = false
	c.cond.Broadcast()
	c.mu.Unlock()
}

// FeedAfter queues one chunk that the peer sends only after the given virtual
// time has passed.
func (c *Conn) FeedAfter(d time.Duration, data []byte) {
	c.mu.Lock()
	c.inq = append(c.inq, chunk{data: append([]byte{}, data...), delay: d})
	c.blocked = false
	c.cond.Broadcast()
	c.mu.Unlock()
}

// FailNextWrites queues errors for the server's next Write calls on this
// connection (nothing is delivered for a failed write; a nil entry lets one pass).
func (c *Conn) FailNextWrites(errs ...error) {
	c.mu.Lock()
	c.writeErrQueue = append(c.writeErrQueue, errs...)
	c.mu.Unlock()
}

// TimeoutError is an error that looks like an expired write deadline.
func TimeoutError() error { return timeoutErr{} }

// EOF: after the queue drains the peer closes its sending side.
func (c *Conn) EOF() {
	c.mu.Lock()
	c.eof = true
	c.blocked = false // a parked reader wakes up and gets the EOF
	c.cond.Broadcast()
	c.mu.Unlock()
}

// EOFWithLastBytes: like EOF, but the Read that delivers the last queued bytes also returns io.EOF.
func (c *Conn) EOFWithLastBytes() {
	c.mu.Lock()
	c.eof = true
	c.eofWithData = true
	c.blocked = false
	c.cond.Broadcast()
	c.mu.Unlock()
}

// Stall: after the queue drains the peer stays silent for ever.
func (c *Conn) Stall() {
	c.mu.Lock()
	c.stalled = true
	c.blocked = false // a parked reader wakes up and gets the timeout
	c.cond.Broadcast()
	c.mu.Unlock()
}

// ErrWatchdog is returned when a wait exceeded the wall-clock watchdog.
var ErrWatchdog = errors.New("simnet: watchdog expired")

// ErrNeverAccepted: the listener was closed before the connection was accepted.
var ErrNeverAccepted = errors.New("simnet: listener closed, connection was never accepted")

func (c *Conn) orphaned() bool {
	return !c.accepted && atomic.LoadInt32(&c.net.listenerClosed) != 0
}

// State of a connection at a quiescent point.
type State struct {
	Closed  bool
	Blocked bool // server parked in Read, everything consumed
}

// WaitQuiescent returns once the server has consumed everything fed so far and
// is parked in Read, or has closed the connection.
func (c *Conn) WaitQuiescent() (State, error) {
	if atomic.LoadInt32(&c.net.hung) != 0 {
		return State{}, ErrWatchdog
	}
	deadline := time.Now().Add(c.net.Watchdog)
	c.mu.Lock()
	defer c.mu.Unlock()
	for {
		if c.closed {
			return State{Closed: true}, nil
		}
		if c.blocked && len(c.inq) == 0 {
			return State{Blocked: true}, nil
		}
		if len(c.inq) == 0 && (c.stallTimeouts >= 5 || c.eofReads >= 5) {
			// the peer is gone / silent, the server was told so five times and is still reading
			return State{Blocked: true}, nil
		}
		if c.orphaned() {
			return State{}, ErrNeverAccepted
		}
		if time.Now().After(deadline) {
			atomic.StoreInt32(&c.net.hung, 1)
			return State{}, ErrWatchdog
		}
		c.timedWait(100 * time.Millisecond)
	}
}

// Accepted reports whether the server has taken the connection off the listener.
func (c *Conn) Accepted() bool {
	c.mu.Lock()
	defer c.mu.Unlock()
	return c.accepted
}

// WaitClosed waits for the server to close the connection.
func (c *Conn) WaitClosed() error {
	if atomic.LoadInt32(&c.net.hung) != 0 {
		return ErrWatchdog
	}
	deadline := time.Now().Add(c.net.Watchdog)
	c.mu.Lock()
	defer c.mu.Unlock()
	for !c.closed {
		if c.orphaned() {
			return ErrNeverAccepted
		}
		if time.Now().After(deadline) {
			atomic.StoreInt32(&c.net.hung, 1)
			return ErrWatchdog
		}
		c.timedWait(100 * time.Millisecond)
	}
	return nil
}

// WaitOutput waits until at least n bytes were written in total, or close.
func (c *Conn) WaitOutput(n int) error {
	deadline := time.Now().Add(c.net.Watchdog)
	c.mu.Lock()
	defer c.mu.Unlock()
	for len(c.out) < n && !c.closed {
		if time.Now().After(deadline) {
			return ErrWatchdog
		}
		c.timedWait(100 * time.Millisecond)
	}
	return nil
}

// timedWait waits on the condition with a wake-up (c.mu held).
func (c *Conn) timedWait(d time.Duration) {
	t := time.AfterFunc(d, func() {
		c.mu.Lock()
		c.cond.Broadcast()
		c.mu.Unlock()
	})
	c.cond.Wait()
	t.Stop()
}

// TakePackets re-frames the bytes written since the last call into packets
// with the reference framer (header length field), independent of the library.
func (c *Conn) TakePackets() (pkts [][]byte, partial int) {
	c.mu.Lock()
	defer c.mu.Unlock()
	p, rest := rfc8907.Frame(c.out[c.outTaken:])
	for _, x := range p {
		pkts = append(pkts, append([]byte{}, x...))
		c.outTaken += len(x)
	}
	stray := len(rest)
	// long-lived connections: do not keep bytes that were already handed out
	if c.outTaken > 1<<20 {
		c.out = append([]byte{}, c.out[c.outTaken:]...)
		c.outTaken = 0
	}
	return pkts, stray
}

// Output returns everything the server wrote.
func (c *Conn) Output() []byte {
	c.mu.Lock()
	defer c.mu.Unlock()
	return append([]byte{}, c.out...)
}

// LastWriteT returns the logical time of the last Write.
func (c *Conn) LastWriteT() int64 {
	c.mu.Lock()
	defer c.mu.Unlock()
	return c.lastWrite
}

// Closed reports whether the server closed the connection.
func (c *Conn) Closed() bool {
	c.mu.Lock()
	defer c.mu.Unlock()
	return c.closed
}

func sizeBucket(n int) int {
	switch {
	case n <= 1:
		return 0
	case n < 12:
		return 1
	case n == 12:
		return 2
	case n < 107:
		return 3
	case n == 107:
		return 4
	}
	return 5
}

// SizeBucketNames names the read-size buckets.
var SizeBucketNames = [6]string{"1", "2-11", "12", "13-106", "107", ">=108"}

// Stats of a connection.
type Stats struct {
	ReadHist                                      [6]int
	Writes, Timeouts, ReadsNoDeadline, CloseCalls int
	OutBytes                                      int
	EverArmed                                     bool
	VNow                                          time.Duration
	Unread                                        int
}

func (c *Conn) Stats() Stats {
	c.mu.Lock()
	defer c.mu.Unlock()
	un := 0
	for _, ch := range c.inq {
		un += len(ch.data)
	}
	return Stats{ReadHist: c.readHist, Writes: c.writes, Timeouts: c.timeouts, ReadsNoDeadline: c.readsNoDeadline, CloseCalls: c.closeCalls,
		OutBytes: len(c.out), EverArmed: c.everArmed, VNow: c.vnow, Unread: un}
}

func (c *Conn) String() string { return fmt.Sprintf("conn#%d(%v)", c.ID, c.remote) }

// ---- listener ----

// Listener implements tacquito's DeadlineListener.
type Listener struct {
	net     *Net
	mu      sync.Mutex
	cond    *sync.Cond
	pending []*Conn
	closed  bool
	armed   bool
	ticks   int
	waiting bool
	addr    net.Addr
	// AcceptErr, when set, is returned once by the next Accept.
	AcceptErr error
}

// Listen creates a listener.
func (n *Net) Listen() *Listener {
	l := &Listener{net: n, addr: &net.TCPAddr{IP: net.ParseIP("fd00::ffff"), Port: 49}}
	l.cond = sync.NewCond(&l.mu)
	return l
}

func (l *Listener) Accept() (net.Conn, error) {
	l.mu.Lock()
	defer l.mu.Unlock()
	l.net.Log(0, KLAcceptEnter, 0, "")
	for {
		if l.closed {
			return nil, &net.OpError{Op: "accept", Net: "tcp", Addr: l.addr, Err: net.ErrClosed}
		}
		if l.AcceptErr != nil {
			err := l.AcceptErr
			l.AcceptErr = nil
			return nil, err
		}
		if len(l.pending) > 0 {
			c := l.pending[0]
			l.pending = l.pending[1:]
			l.net.Log(c.ID, KAccept, 0, "")
			c.mu.Lock()
			c.accepted = true
			c.mu.Unlock()
			return c, nil
		}
		if l.ticks > 0 {
			l.ticks--
			l.net.Log(0, KLTimeout, 0, "")
			return nil, &net.OpError{Op: "accept", Net: "tcp", Addr: l.addr, Err: timeoutErr{}}
		}
		l.waiting = true
		l.cond.Broadcast()
		l.cond.Wait()
		l.waiting = false
	}
}

func (l *Listener) Close() error {
	l.mu.Lock()
	defer l.mu.Unlock()
	if l.closed {
		return net.ErrClosed
	}
	l.closed = true
	atomic.StoreInt32(&l.net.listenerClosed, 1)
	l.net.Log(0, KLClose, 0, "")
	l.cond.Broadcast()
	return nil
}

func (l *Listener) Addr() net.Addr { return l.addr }

func (l *Listener) SetDeadline(t time.Time) error {
	l.mu.Lock()
	l.armed = !t.IsZero()
	l.mu.Unlock()
	l.net.Log(0, KLSetDeadline, int(time.Until(t)/time.Millisecond), "")
	return nil
}

// InjectAcceptErr makes the current (or next) Accept return err once.
func (l *Listener) InjectAcceptErr(err error) {
	l.mu.Lock()
	l.AcceptErr = err
	l.cond.Broadcast()
	l.mu.Unlock()
}

// Tick lets virtual time reach the accept deadline: the current (or next)
// blocked Accept returns a timeout.
func (l *Listener) Tick() {
	l.mu.Lock()
	l.ticks++
	l.cond.Broadcast()
	l.mu.Unlock()
}

// IsClosed reports whether the server closed the listener.
func (l *Listener) IsClosed() bool {
	l.mu.Lock()
	defer l.mu.Unlock()
	return l.closed
}

// Dial offers a new connection from the given remote address.
func (l *Listener) Dial(remote net.Addr) *Conn {
	c := l.net.NewConn(remote)
	l.mu.Lock()
	l.pending = append(l.pending, c)
	l.cond.Broadcast()
	l.mu.Unlock()
	return c
}

// Offer queues an already created connection.
func (l *Listener) Offer(c *Conn) {
	l.mu.Lock()
	l.pending = append(l.pending, c)
	l.cond.Broadcast()
	l.mu.Unlock()
}

// RemoteFor is a convenient distinct client address.
func RemoteFor(i int) *net.TCPAddr {
	return &net.TCPAddr{IP: net.IPv4(10, byte(i>>16), byte(i>>8), byte(i)), Port: 1024 + i%60000}
}
