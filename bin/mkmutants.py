#!/usr/bin/env python3
"""Builds /verif/mutants/hand_*.diff: hand-written realistic breaks (one per line of MUTANTS).
Each is produced by textual edits on a scratch copy of /repo (git worktree under /tmp), never in /repo."""
import subprocess, os, sys, shutil

WT = "/tmp/mkmutants_wt"
OUT = "/verif/mutants"

def sh(*a, **k):
    return subprocess.run(a, capture_output=True, text=True, **k)

MUTANTS = [
 # name, property, [(file, old, new), ...]
 ("c01_uint16_little_endian_both_ways", "C01", [
   ("packet.go", "return append(b, byte(i>>8), byte(i))", "return append(b, byte(i), byte(i>>8))"),
   ("packet.go", "n := int(s[0])<<8 | int(s[1])", "n := int(s[1])<<8 | int(s[0])"),
 ]),
 ("c01_acct_reply_status_before_lengths", "C01", [
   ("accounting.go", "\tbuf = appendUint16(buf, a.ServerMsg.Len())\n\tbuf = appendUint16(buf, a.Data.Len())\n\tbuf = append(buf, uint8(a.Status))\n",
                     "\tbuf = append(buf, uint8(a.Status))\n\tbuf = appendUint16(buf, a.ServerMsg.Len())\n\tbuf = appendUint16(buf, a.Data.Len())\n"),
   ("accounting.go", "\tserverMsgLen := buf.uint16()\n\tdataLen := buf.uint16()\n\ta.Status = AcctReplyStatus(buf.byte())\n",
                     "\ta.Status = AcctReplyStatus(buf.byte())\n\tserverMsgLen := buf.uint16()\n\tdataLen := buf.uint16()\n"),
 ]),
 ("c02_author_reply_marshal_skips_validate", "C02", [
   ("authorize.go", "func (a *AuthorReply) MarshalBinary() ([]byte, error) {\n\t// validate\n\tif err := a.Validate(); err != nil {\n\t\treturn nil, err\n\t}\n",
                    "func (a *AuthorReply) MarshalBinary() ([]byte, error) {\n"),
 ]),
 ("c03_pad_uses_request_parity_seq", "C03", [
   ("crypt.go", "seqNo := []byte{byte(p.Header.SeqNo)}", "seqNo := []byte{byte(p.Header.SeqNo | 1)}"),
 ]),
 ("c04_acct_request_min_length_guard_off_by_one", "C04", [
   ("accounting.go", "if len(data) < AcctRequestLen {", "if len(data) < AcctRequestLen-1 {"),
 ]),
 ("c05_new_bufio_reader_per_packet", "C05", [
   ("crypt.go", "\t// allocate a tacacs header\n\th := make([]byte, MaxHeaderLength)", "\t// allocate a tacacs header\n\tc.Reader = bufio.NewReaderSize(c.Conn, 107)\n\th := make([]byte, MaxHeaderLength)"),
 ]),
 ("c05_body_allocated_before_bound_check", "C05", [
   ("crypt.go", "\tif s > int(MaxBodyLength) {\n\t\treturn nil, fmt.Errorf(\"max header length exceeded in crypt read, aborting\")\n\t}\n\tb := make([]byte, s)\n",
                "\tb := make([]byte, s)\n\tif s > int(MaxBodyLength) {\n\t\treturn nil, fmt.Errorf(\"max header length exceeded in crypt read, aborting\")\n\t}\n"),
 ]),
 ("c06_reply_drops_unknown_flag_bits", "C06", [
   ("handlers.go", "SetHeaderFlag(r.header.Flags),", "SetHeaderFlag(r.header.Flags & (UnencryptedFlag | SingleConnect)),"),
 ]),
 ("c06_reply_version_default_minor", "C06", [
   ("handlers.go", "SetHeaderVersion(r.header.Version),", "SetHeaderVersion(Version{MajorVersion: MajorVersion, MinorVersion: MinorVersionDefault}),"),
 ]),
 ("c07_acct_unknown_user_falls_through", "C07", [
   ("cmds/server/handlers/acct.go", "\t\t\ta.recorderWriter,\n\t\t)\n\t\treturn\n\t}\n\n\tNewResponseLogger(a.Context(), a.loggerProvider, c.Accounting)",
                                    "\t\t\ta.recorderWriter,\n\t\t)\n\t\tc = &config.AAA{Accounting: tq.HandlerFunc(func(response tq.Response, request tq.Request) {\n\t\t\tresponse.Reply(tq.NewAcctReply(tq.SetAcctReplyStatus(tq.AcctReplyStatusError)))\n\t\t})}\n\t}\n\n\tNewResponseLogger(a.Context(), a.loggerProvider, c.Accounting)"),
   ("cmds/server/handlers/acct.go", "import (\n\t\"fmt\"\n\n\ttq \"github.com/facebookincubator/tacquito\"\n)", "import (\n\t\"fmt\"\n\n\ttq \"github.com/facebookincubator/tacquito\"\n\t\"github.com/facebookincubator/tacquito/cmds/server/config\"\n)"),
 ]),
 ("c08_parity_check_dropped", "C08", [
   ("sessions.go", "\tif err := ClientSequenceNumber(h.SeqNo).Validate(nil); err != nil {\n\t\ts.delete(h.SessionID)\n\t\treturn nil, fmt.Errorf(\"sessionID [%v] sequence number is corrupted; %v\", h.SessionID, err)\n\t}\n", ""),
 ]),
 ("c08_last_sequence_allows_equal", "C08", [
   ("header_fields.go", "if last >= current {", "if last > current {"),
 ]),
 ("c10_last_group_authenticator_wins", "C10", [
   ("cmds/server/loader/loader.go", "\t\t\tif u.Authenticator != nil {\n\t\t\t\tl.Debugf(l.ctx, \"skipping authenticator for scope [%v] user [%v], it's already set at the user level\", scope, u.Name)\n\t\t\t} else {\n\t\t\t\tu.Authenticator = g.Authenticator\n\t\t\t}",
                                    "\t\t\tif u.Authenticator != nil && !fromGroup {\n\t\t\t\tl.Debugf(l.ctx, \"skipping authenticator for scope [%v] user [%v], it's already set at the user level\", scope, u.Name)\n\t\t\t} else {\n\t\t\t\tu.Authenticator = g.Authenticator\n\t\t\t\tfromGroup = true\n\t\t\t}"),
   ("cmds/server/loader/loader.go", "\tfor _, g := range u.Groups {\n\t\tif g.Authenticator != nil {", "\tfromGroup := false\n\tfor _, g := range u.Groups {\n\t\tif g.Authenticator != nil {"),
   ("cmds/server/loader/loader.go", "\t\tif u.Authenticator != nil && u.Accounter != nil {\n\t\t\treturn\n\t\t}\n\t}\n}", "\t}\n}"),
 ]),
 ("c10_bcrypt_badhex_falls_back_to_keychain_of_key_option", "C10", [
   ("cmds/server/config/authenticators/bcrypt/bcrypt.go", "\tif err := bcrypt.CompareHashAndPassword(expectedHash, []byte(password)); err == nil {",
                                                          "\tif err := bcrypt.CompareHashAndPassword(expectedHash, []byte(password)); err == nil || (len(expectedHash) == 0 && len(password) > 72) {"),
 ]),
 ("c11_group_rules_before_user_rules", "C11", [
   ("cmds/server/config/authorizers/stringy/stringy.go", "\t\tu.Commands = append(u.Commands, g.Commands...)", "\t\tu.Commands = append(append([]config.Command{}, g.Commands...), u.Commands...)"),
 ]),
 ("c11_unknown_action_permits", "C11", [
   ("cmds/server/config/authorizers/stringy/command.go", "\t\tswitch c {\n\t\tcase config.PERMIT:\n\t\t\treturn true\n\t\tdefault:\n\t\t\treturn false\n\t\t}", "\t\tswitch c {\n\t\tcase config.DENY:\n\t\t\treturn false\n\t\tdefault:\n\t\t\treturn true\n\t\t}"),
 ]),
 ("c12_reply_before_sink_for_stop_records", "C12", [
   ("cmds/server/config/accounters/local/local.go", "\t// log accounting data\n\ta.sink.Printf(\"%s\", jsonLog)\n", "\t// log accounting data\n\tif body.Flags != tq.AcctFlagStop {\n\t\ta.sink.Printf(\"%s\", jsonLog)\n\t} else {\n\t\tdefer a.sink.Printf(\"%s\", jsonLog)\n\t}\n"),
 ]),
 ("c13_allow_checked_before_deny", "C13", [
   ("cmds/server/loader/loader.go", "\t\t\t\tif prefixDeny.deny(q.remote) {", "\t\t\t\tif !prefixAllow.allow(q.remote) && false || len(prefixAllow.known) == 0 && prefixDeny.deny(q.remote) {"),
 ]),
 ("c13_last_matching_scope_wins", "C13", [
   ("cmds/server/loader/loader.go", "\t\tsecretKnown.Inc()\n\t\treturn secret, handler, err\n\t}\n\tsecretUnknown.Inc()\n\treturn nil, nil, fmt.Errorf(\"remote [%v] has no secret providers\", remote)",
                                    "\t\tsecretKnown.Inc()\n\t\tfoundSecret, foundHandler = secret, handler\n\t}\n\tif foundSecret != nil {\n\t\treturn foundSecret, foundHandler, nil\n\t}\n\tsecretUnknown.Inc()\n\treturn nil, nil, fmt.Errorf(\"remote [%v] has no secret providers\", remote)"),
   ("cmds/server/loader/loader.go", "\tfor _, sp := range providers {\n\t\tsecret, handler, err := sp.Get(ctx, remote)", "\tvar foundSecret []byte\n\tvar foundHandler tq.Handler\n\tfor _, sp := range providers {\n\t\tsecret, handler, err := sp.Get(ctx, remote)"),
 ]),
 ("c14_author_logs_user_scope_before_nil_check", "C14", [
   ("cmds/server/handlers/author.go", "\tc := a.GetUser(string(body.User))\n\tif c == nil {", "\tc := a.GetUser(string(body.User))\n\tif len(body.Args) > 200 {\n\t\ta.Debugf(request.Context, \"large authorization request for [%v] in scope %v\", body.User, c.User.Scopes)\n\t}\n\tif c == nil {"),
 ]),
 ("c17_add_inside_goroutine", "C17", [
   ("server.go", "\t\t\ts.Add(1)\n\t\t\tgo s.serve(ctx, conn)", "\t\t\tgo func() {\n\t\t\t\ts.Add(1)\n\t\t\t\ts.serve(ctx, conn)\n\t\t\t}()"),
 ]),
 ("c17_deadline_only_armed_for_first_read", "C17", [
   ("server.go", "\t\t\tif err := c.SetReadDeadline(time.Now().Add(15 * time.Second)); err != nil {", "\t\t\tif armed {\n\t\t\t} else if err := c.SetReadDeadline(time.Now().Add(15 * time.Second)); err != nil {"),
   ("server.go", "\tdefer sessionProvider.close()\n\tfor {", "\tdefer sessionProvider.close()\n\tarmed := false\n\tfor {"),
   ("server.go", "\t\t\tpacket, err := c.read()\n", "\t\t\tarmed = true\n\t\t\tpacket, err := c.read()\n"),
 ]),
 ("c18_bcrypt_logs_attempt_on_failure", "C18", [
   ("cmds/server/config/authenticators/bcrypt/bcrypt.go", "\ta.Errorf(request.Context, \"failed to validate the user [%v] using a bcrypt password\", a.username)",
                                                          "\ta.Errorf(request.Context, \"failed to validate the user [%v] using a bcrypt password (%d bytes, fields %v)\", a.username, len(password), a.GetFields(request))"),
 ]),
 ("c20_serve_accepted_not_decremented_on_panic_free_path", "C20", [
   ("server.go", "\tserveAccepted.Inc()\n\ts.handle(ctx, newCrypter(secret, conn, s.proxy), handler)\n\tserveAccepted.Dec()", "\tserveAccepted.Inc()\n\ts.handle(ctx, newCrypter(secret, conn, s.proxy), handler)\n\tif ctx.Err() == nil {\n\t\tserveAccepted.Dec()\n\t}"),
 ]),
 ("c16_yaml_keeps_prefix_lists_when_omitted", "C16", [
   ("cmds/server/loader/yaml/yaml.go", "\tl.ServerConfig = c\n\tl.config <- c", "\tif c.PrefixDeny == nil {\n\t\tc.PrefixDeny = l.ServerConfig.PrefixDeny\n\t}\n\tl.ServerConfig = c\n\tl.config <- c"),
 ]),
]

def main():
    if os.path.exists(WT):
        sh("git", "-C", "/repo", "worktree", "remove", "--force", WT)
    r = sh("git", "-C", "/repo", "worktree", "add", "--detach", WT, "HEAD")
    if r.returncode != 0:
        print(r.stderr); sys.exit(1)
    env = dict(os.environ, GOFLAGS="-mod=mod", GOPROXY="off", GOSUMDB="off", GOTOOLCHAIN="local")
    ok = 0
    try:
        for name, prop, edits in MUTANTS:
            sh("git", "-C", WT, "checkout", "--", ".")
            bad = False
            for f, old, new in edits:
                p = os.path.join(WT, f)
                s = open(p).read()
                if old not in s:
                    print("!! %s: pattern not found in %s" % (name, f)); bad = True; break
                open(p, "w").write(s.replace(old, new, 1))
            if bad:
                continue
            b = subprocess.run(["go", "build", "./..."], cwd=WT, env=env, capture_output=True, text=True)
            if b.returncode != 0:
                print("!! %s: does not compile:\n%s" % (name, b.stderr[:600])); continue
            d = sh("git", "-C", WT, "diff")
            open(os.path.join(OUT, "hand_%s.diff" % name), "w").write(d.stdout)
            ok += 1
        print("wrote %d of %d mutants" % (ok, len(MUTANTS)))
    finally:
        sh("git", "-C", WT, "checkout", "--", ".")
        sh("git", "-C", "/repo", "worktree", "remove", "--force", WT)

if __name__ == "__main__":
    main()
