#!/usr/bin/env python3
"""Regenerates /verif/MANIFEST.json from the table below (single source of truth)."""
import json, subprocess, os

ROOT = "/verif"
ALL = ["C%02d" % i for i in range(1, 21)]

# id -> (technique, level text, level note, design ref)
CHECKS = {
 "C01": ("reference-model runtime monitor (independent RFC 8907 layout table vs library bytes, both directions)",
         "Every generated value is encoded by the library and by an independent table-driven RFC 8907 codec and the bytes are compared; reference bytes are decoded by the library and compared field by field; the slice returned for a packet is held across the next encode and re-compared; bodies are also decoded into long-lived values that held an earlier packet. Held on the boundary sweeps and seeded random values listed in the evidence; not a proof.",
         "trusts the layout table in h/rfc8907 (transcribed from the RFC) and crypto/md5", "3/C01"),
 "C02": ("round-trip and refusal runtime monitor over boundary-crossing values and a hostile decode-first corpus",
         "Oracle observes MarshalBinary/UnmarshalBinary of the real code on values on both sides of every wire-width boundary and on malformed bytes; a successful encode must be representable, valid and lossless; a successful decode must re-encode to its bytes.",
         "validation rules are those listed in the property's anchors, re-stated independently in h/checks/c02.go", "3/C02"),
 "C04": ("red-zone sanitizer for the decoders: guard page (mmap+PROT_NONE, SetPanicOnFault), canary capacity, allocation meter, differential against the reference decoder; thorough adds -race/checkptr",
         "Each hostile input is decoded from three memory placements by every decoder, by Request.Fields and (as a reply stream) by Client.Send; panics, faults, capacity-dependent results, over-cap bodies, invalid accepted values and allocation above 16*len+64KiB are violations.",
         "reads before the start of a slice are impossible in safe Go; allocation measured with runtime.ReadMemStats in a single-goroutine worker", "3/C04"),
 "C03": ("reference-model runtime monitor at the socket (raw server/client bytes vs header||(body XOR independent MD5 pad), cleartext seen by handlers and returned by Client.Send)",
         "The real server loop and Client.Send run over a scripted in-memory connection; every written byte and every delivered cleartext is compared with the reference pad for secrets/sessions/versions/sequence numbers/body lengths listed in the evidence; also the server's own bad-secret error packets, whatever is written after an injected write fault, request packets put together in five ways (stale length fields), replies sent through Response.Write, connection secrets cut from one shared buffer (which must stay untouched), and reference-server exchanges under configured secrets with special characters.",
         "trusts crypto/md5 and h/rfc8907.Pad; Client driven through the verif-only constructor NewClientFromConn", "3/C03"),
 "C05": ("scripted-delivery runtime monitor (generated TCP segmentation schedules against the real reader; wrapping Handler + connection event log)",
         "Streams of packets are cut by 17 segmentation schedules and fed to the real server loop / Client.Send; the handler must see exactly the packets sent and the bodies it was handed (kept by reference) must stay intact while later packets are read; truncation, stall, pause-inside-packet and oversize-header scenarios (server and client as receiver), pauses beyond the read deadline, parallel connections after refused ones, proxy-mode streams and streams whose last bytes arrive together with EOF are judged on the Read/Close event log (virtual time) and a heap meter.",
         "simnet delivers at most one chunk per Read; oversize allocation bound 64 KiB (minimum over up to three attempts) measured with ReadMemStats", "3/C05"),
 "C06": ("raw-header runtime monitor in lock-step (reply bytes re-framed independently and compared octet by octet with the mirrored header and reference pad)",
         "All 196608 request headers (3 types x 2 minor x 256 flag octets x 128 odd sequence numbers) and every reply kind/size are exchanged with the real server loop; each reply's raw header, length field and obfuscation are checked; replies through Response.Write, fallback replies after an unsendable first reply, full 1..255 walks, and every reply of the reference server's handler paths go through the same oracle.",
         "scope: Reply/ReplyWithContext; a RESTART reply to request 255 is unjudged (statement ambiguous)", "3/C06"),
 "C08": ("model-based runtime monitor over connection histories (executable session/sequence model vs handler identity and close events of the real loop)",
         "All histories of length <= 4 over {1,2,3,5,253,255}x{A,B} plus seeded random longer histories are played in lock-step; every dispatch (which handler: initial or which continuation) and every rejection (no handler, closed) must match the model; on the reference server a final status must register no continuation and a finished session's id must start again at the initial handler.",
         "RESTART replies excluded from the scripts; handler identity observed through the wrapping Handler", "3/C08"),
 "C17": ("event-order runtime monitor over the totally ordered simnet log with virtual time; cancellation injected at generated moments",
         "Shutdown scenarios with connections in every state and pacing scenarios are run against the real Serve loop; the oracle checks that nothing happens after Serve returned, that listener/connections/handlers are finished by then, that Serve does not return early, that a deadline is armed at every Read and that the reference server wired with one context for loader and Serve still returns when clients connect after the cancellation, and that stalled connections (22 pacing patterns incl. pending sessions, single-connect, pipelined tails, providers answering nothing, proxy mode) are closed without a handler call.",
         "liveness restated as bounded progress with a quiescent-state witness; real 15 s/10 s deadlines emulated by virtual time", "3/C17"),
 "C19": ("classifier-based runtime monitor (independent length-consistency classifier of the bytes the server will see; handler entries / packets / close observed in lock-step)",
         "Requests are classified must-flag / must-not-flag / unjudged by h/rfc8907.Decode over all layouts of the type; the real loop must answer must-flag with exactly one ERROR packet of the matching type, no handler, close (also when a second mismatching packet shares the segment, nothing of which may reach the next connection), and must dispatch must-not-flag requests.",
         "error packet judged only on count, type, reply layout and ERROR status", "3/C19"),
 "C20": ("conservation runtime monitor over the default prometheus registry (pre-burst vs quiescent values, non-negativity of every sample)",
         "Bursts of connection histories of 21 kinds (completed, abandoned, rejected, refused, shutdown, top of the number space, reused ids, key mismatch after an open session, hang-up at once; every fifth burst in proxy mode) are run sequentially and concurrently against one server per burst; gauges are sampled throughout and compared at quiescence.",
         "gauges are process-global: one server per burst, one process per batch", "3/C20"),
 "C07": ("counting runtime monitor in lock-step on the reference server (packets written between consecutive blocking reads, handler entries at a wrapping Handler, header/sequence/key-mismatch model)",
         "Generated multiplexed sessions over every handler path and user kind are played against the reference server; each accepted request must produce exactly one reply packet (none for 255) and keep the connection reading; each rejected one no handler, at most one packet and a close. Finished session ids are reused, open ones are replayed under another packet type; a quarter of the configurations serve from a SPAN scope whose span host is down. Component pass drives stringy and bcrypt handlers directly.",
         "open sessions are read from the wrapping Response (continuation registered) at the API boundary; unjudged key-mismatch class may go either way but completely", "3/C07"),
 "C14": ("crash monitor: hostile generated streams against the reference server in worker processes, panic-recording Handler wrapper, parent-side death localisation, control connections before/after; thorough adds -race/checkptr",
         "Random bytes, mutated packets, every body in every handler state, truncated/oversize packets, odd-user recipes, sequence games on an open session and proxy junk are sent over 1-64 connections (from the intact and from the odd scopes) under nine rich and odd configuration variants incl. SPAN scopes; any recorded or process-level panic and any wrong control answer is a violation.",
         "streams bounded to 64 KiB; DNS provider and syslog accounter are not exercised; the SPAN handler type is registered and exercised with a span host that is down only", "3/C14"),
 "C12": ("event-log checker over accounting sink records and reply writes sharing one logical clock (exactly-once, order, byte-for-byte fidelity via unique task ids)",
         "Accounting requests with hostile characters, every flag octet and 0..255 arguments are sent on up to 16 concurrent connections to the reference server; for every SUCCESS reply exactly one earlier sink record with the request's task id must decode to exactly the request; listed ERROR cases must be answered ERROR. Half of the batches render through a real log.Logger, a quarter serve from a SPAN scope whose span host is down; a fifth of the requests continue the previous session id.",
         "record format = JSON of the decoded request as the reference accounter emits it; syslog accounter not exercised (needs a syslog socket)", "3/C12"),
 "C18": ("taint-token runtime monitor over an injected recording logger plus the stock logger's debug output",
         "Every login carries a unique random password token and the scope a unique secret token; all logger calls (messages, Record maps minus caller-obscured keys, retained context fields) and the stock Logger's level-30 output are searched for the tokens in plain/hex/base64 form across all START combinations, ASCII/PAP flows, aborts, empty answers, error paths, slow keychains, multiplexed logins and wrong-key connections; stock logger at levels 10, 20 and 30.",
         "stock logger at level 30 in half of the batches, 10 and 20 in a quarter each", "3/C18"),
 "C10": ("reference-evaluator runtime monitor for authentication (independent evaluation of configuration + session transcript; soundness on every reply, completeness on well-formed logins)",
         "Generated configurations (scopes, users, groups, credential kinds, duplicates) and authentication histories are played against the reference server; a PASS must be justified by a (user, password) pair the session itself carried that verifies in the connection's scope; abort bits combined with other flag bits and group-inherited keychain authenticators are included; well-formed ASCII/PAP logins with the right password must end in PASS.",
         "bcrypt trusted; passwords 1..72 bytes; soundness judged generously over all pairs a session carried", "3/C10"),
 "C11": ("reference-evaluator runtime monitor for authorization (multi-reading evaluator of rule order / whole-string match / default deny and of service selection)",
         "Generated policies (regex grammar incl. partial anchors, alternations, (?m), invalid patterns; user/group layering; services with conditions and optional values) and requests aimed at the policies' own patterns are sent to the reference server; grants must be justified by a permit as first applying rule under some reading; canonical session requests must return exactly the expected value set and add/replace status.",
         "regexp trusted; command path judged in the grant direction only; non-canonical session requests unjudged", "3/C11"),
 "C09": ("differential transcript runtime monitor (each session's replies when multiplexed / concurrent vs when run alone; byte-for-byte)",
         "Sets of 2-8 session scripts are run multiplexed under generated interleavings (all interleavings of 2 scripts x <= 3 packets enumerated), on concurrent connections with identical session ids from two scopes (half of the time from one host), and alone; every transcript must equal the solo transcript. Thorough adds -race.",
         "replies are deterministic functions of the session; coverage floor counts interleavings with two sessions open at once", "3/C09"),
 "C13": ("reference-evaluator runtime monitor for admission (netip-based evaluator vs Loader.Get and vs the full server's connection event log and AAA outcomes)",
         "Generated ordered scopes with overlapping IPv4/IPv6 prefixes, deny/allow lists and scoped users; boundary addresses of every prefix in 4-byte, mapped and IPv6 encodings; refused connections must show only RemoteAddr+Close, served ones must work under the expected scope's key and user set only; lookups issued at the same instant from 8 goroutines must each be bound by their own address; a user assigned to several scopes must exist in exactly those.",
         "IPv4(-mapped) vs ::/0-like prefixes unjudged; valid CIDRs only", "3/C13"),
 "C16": ("differential runtime monitor over load histories (long-lived loader object vs fresh loader per document; snapshots of published values; end-to-end lookups/AAA vs fresh server)",
         "Histories of 2-6 YAML/JSON documents (edits dropping keys, shrinking/reordering lists, removing per-user fields; invalid documents interleaved) are fed to one loader object; outcome and published value must equal a fresh loader's, earlier published values must not change, failed loads publish nothing; sampled histories are replayed through Loader+server (half of them with traffic between the loads) and compared with a fresh server.",
         "nil == empty; every third history goes through Load(path) of one file with a pinned modification time; the fsnotify watcher itself is driven in the thorough tier only", "3/C16"),
 "C15": ("Go race detector over the whole reference server under generated concurrent load with reloads and shutdown (reports de-duplicated by owner-frame pair) + porcupine linearizability check of lookup/reload histories + re-hashing of published configurations",
         "Workers built with -race run 8-48 client goroutines (all AAA kinds, multiplexed sessions, shared users), a reloader through the real yaml/json loaders, lookup probers, goroutines using the client-side header/packet helpers and shutdowns, plus a slice over real loopback TCP; any race report owned by a tacquito frame is a violation. Lookup/reload histories with generation-encoding deny/allow lists and keys are checked with porcupine against a one-register model (a mixture is illegal in every state; generations that build no provider must refuse everything); every published configuration is deep-hashed and re-checked after later loads.",
         "races only among executed accesses; write completion taken at a barrier (configuration consumed, then one lookup through the loader's loop); harness-only race reports make the run inconclusive", "3/C15"),
}

NA_REASON = "check not built yet in this round (work in progress; see DESIGN.md section 3 for the planned monitor)"

def main():
    hooks_commits = []
    try:
        out = subprocess.run(["git", "-C", "/repo", "log", "--format=%H %s"], capture_output=True, text=True).stdout
        for line in out.splitlines():
            h, _, subj = line.partition(" ")
            if subj.startswith("verif hook:"):
                hooks_commits.append(h)
    except Exception:
        pass
    checks = []
    for pid in ALL:
        if pid not in CHECKS:
            continue
        tech, text, note, ref = CHECKS[pid]
        checks.append({
            "property_id": pid,
            "quick_cmd": "bin/vcheck %s --tier quick" % pid,
            "thorough_cmd": "bin/vcheck %s --tier thorough" % pid,
            "evidence_file": "/verif/evidence/%s.json" % pid,
            "replay_cmd_template": "bin/vcheck %s --replay {path}" % pid,
            "engine": "vc",
            "level_claimed": {"category": "exploration", "text": text, "design_ref": "DESIGN.md section " + ref},
            "level_note": note,
            "technique": tech,
        })
    m = {
        "version": 1,
        "setup_cmd": "bin/vcheck --setup",
        "hooks": {
            "guard": "verif",
            "enable": "go build -tags verif (bin/vcheck builds /verif/h, which replaces the tacquito module by /repo, with -tags verif)",
            "baseline_off_cmd": "bin/baseline",
            "source_commits": hooks_commits,
            "add_only": True,
        },
        "engines": [{
            "name": "vc", "path": "/verif/h/cmd/vc", "serves_properties": sorted(CHECKS),
            "kind_free_text": "Go harness: runtime monitors (reference models, scripted in-memory network with event log, red-zone sanitizer, race detector driver, porcupine history checker) run against the real tacquito code in worker processes",
        }],
        "checks": checks,
        "notes": "Exit codes: 0 held on everything explored, 1 violation (VIOLATION line), 2 inconclusive (INCONCLUSIVE line; never folded into the other two). Known/fixed findings: /verif/KNOWN_FINDINGS.json.",
        "not_applicable": [{"property_id": p, "reason": NA_REASON} for p in ALL if p not in CHECKS],
    }
    with open(os.path.join(ROOT, "MANIFEST.json"), "w") as f:
        json.dump(m, f, indent=1)
        f.write("\n")

if __name__ == "__main__":
    main()
